package structure

import (
	"github.com/pentops/j5/gen/j5/source/v1/source_j5pb"
	"google.golang.org/protobuf/reflect/protoreflect"
)

// VerifBuildService exposes buildService (with buildMethod) to the C16 harness.
func VerifBuildService(src protoreflect.ServiceDescriptor) (*source_j5pb.Service, error) {
	return buildService(src)
}
