package structure

import (
	"github.com/pentops/j5/gen/j5/schema/v1/schema_j5pb"
	"github.com/pentops/j5/gen/j5/source/v1/source_j5pb"
	"google.golang.org/protobuf/reflect/protoreflect"
)

// VerifBuildService exposes buildService (with buildMethod) to the C16 harness.
func VerifBuildService(src protoreflect.ServiceDescriptor) (*source_j5pb.Service, error) {
	return buildService(src)
}

// HarnessPackageFiling (C15/C16): reflected schemas are filed into the source
// API under the package (and sub-package) their proto package names — exactly
// that one, also when one package name is a string prefix of another (foo.v1 /
// foo.v10) and whatever the order of the package list.
func HarnessPackageFiling() {
	names := []string{"foo.v1", "foo.v10", "bar.v1"}
	order := [][]int{{0, 1, 2}, {0, 2, 1}, {1, 0, 2}, {1, 2, 0}, {2, 0, 1}, {2, 1, 0}}[ndChoice("listOrder", 6)]
	bb := &packageSet{wantPackages: map[string]bool{}}
	for _, i := range order {
		bb.wantPackages[names[i]] = true
		bb.packages = append(bb.packages, &source_j5pb.Package{Name: names[i], Schemas: map[string]*schema_j5pb.RootSchema{}})
	}
	targets := []string{"foo.v1", "foo.v10", "bar.v1", "foo.v1.service", "foo.v10.service", "new.v1"}
	target := targets[ndChoice("target", len(targets))]
	ss, err := bb.getSchemaSet(target)
	verifAssert(err == nil && ss != nil, "schema-set-found-or-created")
	if err != nil || ss == nil {
		return
	}
	ss["Marker"] = &schema_j5pb.RootSchema{}
	wantPkg, wantSub := target, ""
	if len(target) > 8 && target[len(target)-8:] == ".service" {
		wantPkg, wantSub = target[:len(target)-8], "service"
	}
	found := 0
	for _, p := range bb.packages {
		if _, ok := p.Schemas["Marker"]; ok {
			found++
			verifAssert(p.Name == wantPkg && wantSub == "", "filed-under-the-package-of-that-name")
		}
		for _, sp := range p.SubPackages {
			if _, ok := sp.Schemas["Marker"]; ok {
				found++
				verifAssert(p.Name == wantPkg && sp.Name == wantSub, "filed-under-the-sub-package-of-that-name")
			}
		}
	}
	verifAssert(found == 1, "filed-exactly-once")
}
