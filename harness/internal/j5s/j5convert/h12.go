package j5convert

// C12 beyond integers: required, string length/pattern, key formats, bytes
// length, bool const, enum membership and array rules with per-item rules.
//
// The emitted (buf.validate.field) constraint is read back from the compiled
// descriptor and *evaluated* by a reference semantics of the standard
// protovalidate rules (verifEval*) on a symbolic candidate value; the verdict
// must equal the j5s rule semantics on the same candidate. Rules the
// reference semantics does not model must not be set at all
// (no-unmodelled-rule), so that a constraint can never mean more than what
// is evaluated here. Regular expressions are opaque: "candidate matches
// pattern p" is one arbitrary boolean per distinct pattern text, the same for
// both sides.

import (
	"buf.build/gen/go/bufbuild/protovalidate/protocolbuffers/go/buf/validate"
	"github.com/pentops/j5/gen/j5/client/v1/client_j5pb"
	"github.com/pentops/j5/gen/j5/schema/v1/schema_j5pb"
	"github.com/pentops/j5/gen/j5/sourcedef/v1/sourcedef_j5pb"
	"github.com/pentops/j5/lib/j5schema"
	"google.golang.org/protobuf/proto"
	"google.golang.org/protobuf/reflect/protoreflect"
	"google.golang.org/protobuf/types/descriptorpb"
)

const verifID62Pattern = `^[0-9A-Za-z]{22}$`

type verifCand struct {
	set    bool // proto presence / non-empty for implicit presence
	str    []byte
	b      bool
	enum   int32
	items  []*verifCand
	isUUID bool // candidate is a well-formed UUID string
	// opaque regular-expression matching: one boolean per pattern text
	matchDeclared bool
	matchID62     bool
}

func verifRuneCount(b []byte) int {
	n := 0
	for _, c := range b {
		if c&0xC0 != 0x80 {
			n++
		}
	}
	return n
}

func verifSetFields(m proto.Message) int {
	n := 0
	m.ProtoReflect().Range(func(protoreflect.FieldDescriptor, protoreflect.Value) bool {
		n++
		return true
	})
	return n
}

func verifCount(conds ...bool) int {
	n := 0
	for _, c := range conds {
		if c {
			n++
		}
	}
	return n
}

func verifMatches(c *verifCand, pattern string, declared *string) bool {
	if pattern == verifID62Pattern {
		return c.matchID62
	}
	if declared != nil && pattern == *declared {
		return c.matchDeclared
	}
	verifFail("pattern-not-from-declaration")
	return false
}

// verifEvalString: standard string rules len/min_len/max_len (characters),
// len_bytes/min_bytes/max_bytes, pattern, well-known uuid.
func verifEvalString(r *validate.StringRules, c *verifCand, declaredPattern *string) bool {
	_, uuid := r.WellKnown.(*validate.StringRules_Uuid)
	modelled := verifCount(r.Len != nil, r.MinLen != nil, r.MaxLen != nil, r.LenBytes != nil, r.MinBytes != nil, r.MaxBytes != nil, r.Pattern != nil, uuid)
	verifAssert(verifSetFields(r) == modelled, "no-unmodelled-rule:string")
	ok := true
	runes, bytes := uint64(verifRuneCount(c.str)), uint64(len(c.str))
	if r.Len != nil {
		ok = verifAll(ok, runes == *r.Len)
	}
	if r.MinLen != nil {
		ok = verifAll(ok, runes >= *r.MinLen)
	}
	if r.MaxLen != nil {
		ok = verifAll(ok, runes <= *r.MaxLen)
	}
	if r.LenBytes != nil {
		ok = verifAll(ok, bytes == *r.LenBytes)
	}
	if r.MinBytes != nil {
		ok = verifAll(ok, bytes >= *r.MinBytes)
	}
	if r.MaxBytes != nil {
		ok = verifAll(ok, bytes <= *r.MaxBytes)
	}
	if r.Pattern != nil {
		ok = verifAll(ok, verifMatches(c, *r.Pattern, declaredPattern))
	}
	if uuid {
		ok = verifAll(ok, r.GetUuid() == c.isUUID)
	}
	return ok
}

func verifEvalBytes(r *validate.BytesRules, c *verifCand) bool {
	modelled := verifCount(r.Len != nil, r.MinLen != nil, r.MaxLen != nil)
	verifAssert(verifSetFields(r) == modelled, "no-unmodelled-rule:bytes")
	ok := true
	n := uint64(len(c.str))
	if r.Len != nil {
		ok = verifAll(ok, n == *r.Len)
	}
	if r.MinLen != nil {
		ok = verifAll(ok, n >= *r.MinLen)
	}
	if r.MaxLen != nil {
		ok = verifAll(ok, n <= *r.MaxLen)
	}
	return ok
}

func verifEvalEnum(r *validate.EnumRules, c *verifCand, defined func(int32) bool) bool {
	modelled := verifCount(r.Const != nil, r.DefinedOnly != nil, len(r.In) > 0, len(r.NotIn) > 0)
	verifAssert(verifSetFields(r) == modelled, "no-unmodelled-rule:enum")
	ok := true
	if r.Const != nil {
		ok = verifAll(ok, c.enum == *r.Const)
	}
	if r.GetDefinedOnly() {
		ok = verifAll(ok, defined(c.enum))
	}
	if len(r.In) > 0 {
		in := false
		for _, v := range r.In {
			in = verifAny(in, v == c.enum)
		}
		ok = verifAll(ok, in)
	}
	for _, v := range r.NotIn {
		ok = verifAll(ok, v != c.enum)
	}
	return ok
}

type verifEvalEnv struct {
	kind            int  // rk*
	presence        bool // the field tracks presence (proto3 optional)
	declaredPattern *string
	defined         func(int32) bool
}

// verifEvalItem: type-specific rules of one (item) value
func verifEvalTyped(fc *validate.FieldConstraints, c *verifCand, env *verifEvalEnv) bool {
	switch t := fc.Type.(type) {
	case nil:
		return true
	case *validate.FieldConstraints_String_:
		if env.kind != rkString && env.kind != rkKey {
			verifFail("rule-type-matches-field-type")
		}
		return verifEvalString(t.String_, c, env.declaredPattern)
	case *validate.FieldConstraints_Bytes:
		if env.kind != rkBytes {
			verifFail("rule-type-matches-field-type")
		}
		return verifEvalBytes(t.Bytes, c)
	case *validate.FieldConstraints_Bool:
		if env.kind != rkBool {
			verifFail("rule-type-matches-field-type")
		}
		verifAssert(verifSetFields(t.Bool) == verifCount(t.Bool.Const != nil), "no-unmodelled-rule:bool")
		if t.Bool.Const != nil {
			return *t.Bool.Const == c.b
		}
		return true
	case *validate.FieldConstraints_Enum:
		if env.kind != rkEnum {
			verifFail("rule-type-matches-field-type")
		}
		return verifEvalEnum(t.Enum, c, env.defined)
	}
	verifFail("rule-type-matches-field-type")
	return false
}

// verifEvalField: the whole (buf.validate.field) constraint on a singular or
// repeated field, with protovalidate's default `ignore` behaviour: the type
// rules are skipped only for an unset field that tracks presence (proto3
// optional); an implicit-presence scalar is validated as its zero value and an
// empty list against the repeated rules. `required` demands a set field /
// non-zero value / non-empty list.
func verifEvalField(fc *validate.FieldConstraints, repeated bool, c *verifCand, env *verifEvalEnv) bool {
	if fc == nil {
		return true
	}
	verifAssert(fc.GetIgnore() == validate.Ignore_IGNORE_UNSPECIFIED && len(fc.Cel) == 0, "no-unmodelled-rule:field")
	if fc.GetRequired() && !c.set {
		return false
	}
	if env.presence && !c.set {
		return true
	}
	if !repeated {
		return verifEvalTyped(fc, c, env)
	}
	rep, ok := fc.Type.(*validate.FieldConstraints_Repeated)
	if !ok {
		if fc.Type != nil {
			verifFail("rule-type-matches-field-type")
		}
		return true
	}
	r := rep.Repeated
	modelled := verifCount(r.MinItems != nil, r.MaxItems != nil, r.Unique != nil, r.Items != nil)
	verifAssert(verifSetFields(r) == modelled, "no-unmodelled-rule:repeated")
	res := true
	n := uint64(len(c.items))
	if r.MinItems != nil {
		res = verifAll(res, n >= *r.MinItems)
	}
	if r.MaxItems != nil {
		res = verifAll(res, n <= *r.MaxItems)
	}
	if r.GetUnique() {
		for i := range c.items {
			for k := i + 1; k < len(c.items); k++ {
				res = verifAll(res, !verifCandEqual(c.items[i], c.items[k], env.kind))
			}
		}
	}
	if r.Items != nil {
		verifAssert(!r.Items.GetRequired() && r.Items.GetIgnore() == validate.Ignore_IGNORE_UNSPECIFIED && len(r.Items.Cel) == 0, "no-unmodelled-rule:items")
		for _, it := range c.items {
			res = verifAll(res, verifEvalTyped(r.Items, it, env))
		}
	}
	return res
}

func verifCandEqual(a, b *verifCand, kind int) bool {
	switch kind {
	case rkBool:
		return a.b == b.b
	case rkEnum:
		return a.enum == b.enum
	}
	return string(a.str) == string(b.str)
}

const (
	rkString = iota
	rkBytes
	rkBool
	rkEnum
	rkKey
	rkKinds
)

var verifRkName = []string{"string", "bytes", "bool", "enum", "key"}

func verifDrawCand(kind int, tag string, S int) *verifCand {
	c := &verifCand{set: true}
	switch kind {
	case rkString, rkKey:
		n := ndIntRange(tag+"Len", 0, S)
		c.str = make([]byte, n)
		for i := range c.str {
			c.str[i] = ndByte(tag)
		}
		c.isUUID = ndBool(tag + "IsUUID")
		c.matchDeclared = ndBool(tag + "MatchesDeclaredPattern")
		c.matchID62 = ndBool(tag + "MatchesID62Pattern")
	case rkBytes:
		n := ndIntRange(tag+"Len", 0, S)
		c.str = make([]byte, n)
	case rkBool:
		c.b = ndBool(tag)
	case rkEnum:
		c.enum = ndInt32(tag)
		verifAssume(c.enum >= -1)
		verifAssume(c.enum <= 4)
	}
	return c
}

func verifSmallU64Ptr(name string, max int) *uint64 {
	if ndBool(name + "Set") {
		v := ndUint64(name)
		verifAssume(v <= uint64(max))
		return &v
	}
	return nil
}

// j5Accepts: the declared j5s rules on one (item) value
type verifDeclared struct {
	kind              int
	minLen, maxLen    *uint64
	pattern           *string
	keyFormat         int // 0 none, 1 uuid, 2 id62, 3 custom, 4 informal
	boolConst         *bool
	enumIn, enumNotIn []int32
}

func (d *verifDeclared) accepts(c *verifCand) bool {
	ok := true
	switch d.kind {
	case rkString:
		runes := uint64(verifRuneCount(c.str))
		if d.minLen != nil {
			ok = verifAll(ok, runes >= *d.minLen)
		}
		if d.maxLen != nil {
			ok = verifAll(ok, runes <= *d.maxLen)
		}
		if d.pattern != nil {
			ok = verifAll(ok, c.matchDeclared)
		}
	case rkBytes:
		n := uint64(len(c.str))
		if d.minLen != nil {
			ok = verifAll(ok, n >= *d.minLen)
		}
		if d.maxLen != nil {
			ok = verifAll(ok, n <= *d.maxLen)
		}
	case rkBool:
		if d.boolConst != nil {
			ok = c.b == *d.boolConst
		}
	case rkEnum:
		ok = verifAll(c.enum >= 0, c.enum <= 3) // defined values only
		if len(d.enumIn) > 0 {
			in := false
			for _, v := range d.enumIn {
				in = verifAny(in, v == c.enum)
			}
			ok = verifAll(ok, in)
		}
		for _, v := range d.enumNotIn {
			ok = verifAll(ok, v != c.enum)
		}
	case rkKey:
		switch d.keyFormat {
		case 1:
			ok = c.isUUID
		case 2:
			ok = c.matchID62
		case 3:
			ok = c.matchDeclared
		}
	}
	return ok
}

func HarnessRuleSemantics() {
	kind := ndChoice("kind", rkKinds)
	if only := verifParam("kind", -1); only >= 0 && only != kind {
		return
	}
	tag := ":" + verifRkName[kind]
	S := verifParam("S", 3)
	d := &verifDeclared{kind: kind}
	var field *schema_j5pb.Field
	hasRules := ndBool("hasRules")
	switch kind {
	case rkString:
		sf := &schema_j5pb.StringField{}
		if hasRules {
			d.minLen, d.maxLen = verifSmallU64Ptr("minLength", S+1), verifSmallU64Ptr("maxLength", S+1)
			if ndBool("hasPattern") {
				p := "^[a-z]+$"
				d.pattern = &p
			}
			sf.Rules = &schema_j5pb.StringField_Rules{MinLength: d.minLen, MaxLength: d.maxLen, Pattern: d.pattern}
		}
		field = &schema_j5pb.Field{Type: &schema_j5pb.Field_String_{String_: sf}}
	case rkBytes:
		bf := &schema_j5pb.BytesField{}
		if hasRules {
			d.minLen, d.maxLen = verifSmallU64Ptr("minLength", S+1), verifSmallU64Ptr("maxLength", S+1)
			bf.Rules = &schema_j5pb.BytesField_Rules{MinLength: d.minLen, MaxLength: d.maxLen}
		}
		field = &schema_j5pb.Field{Type: &schema_j5pb.Field_Bytes{Bytes: bf}}
	case rkBool:
		bf := &schema_j5pb.BoolField{}
		if hasRules {
			d.boolConst = verifBoolPtr("const")
			bf.Rules = &schema_j5pb.BoolField_Rules{Const: d.boolConst}
		}
		field = &schema_j5pb.Field{Type: &schema_j5pb.Field_Bool{Bool: bf}}
	case rkEnum:
		ef := &schema_j5pb.EnumField{Schema: &schema_j5pb.EnumField_Ref{Ref: &schema_j5pb.Ref{Schema: "Mood"}}}
		if hasRules {
			names := []string{"UNSPECIFIED", "GLAD", "SAD", "MAD"}
			ef.Rules = &schema_j5pb.EnumField_Rules{}
			// in / not-in: symbolic subsets, declared by short or full name
			for i := 1; i <= 3; i++ {
				switch ndChoice("membership", 3) {
				case 1:
					ef.Rules.In = append(ef.Rules.In, names[i])
					d.enumIn = append(d.enumIn, int32(i))
				case 2:
					ef.Rules.NotIn = append(ef.Rules.NotIn, "MOOD_"+names[i])
					d.enumNotIn = append(d.enumNotIn, int32(i))
				}
			}
		}
		field = &schema_j5pb.Field{Type: &schema_j5pb.Field_Enum{Enum: ef}}
	case rkKey:
		kf := &schema_j5pb.KeyField{}
		d.keyFormat = ndChoice("keyFormat", 5)
		switch d.keyFormat {
		case 1:
			kf.Format = &schema_j5pb.KeyFormat{Type: &schema_j5pb.KeyFormat_Uuid{Uuid: &schema_j5pb.KeyFormat_UUID{}}}
		case 2:
			kf.Format = &schema_j5pb.KeyFormat{Type: &schema_j5pb.KeyFormat_Id62{Id62: &schema_j5pb.KeyFormat_ID62{}}}
		case 3:
			p := "^k-[0-9]+$"
			d.pattern = &p
			kf.Format = &schema_j5pb.KeyFormat{Type: &schema_j5pb.KeyFormat_Custom_{Custom: &schema_j5pb.KeyFormat_Custom{Pattern: p}}}
		case 4:
			kf.Format = &schema_j5pb.KeyFormat{Type: &schema_j5pb.KeyFormat_Informal_{Informal: &schema_j5pb.KeyFormat_Informal{}}}
		}
		field = &schema_j5pb.Field{Type: &schema_j5pb.Field_Key{Key: kf}}
	}
	// optionally wrapped in an array with its own rules
	isArray := ndBool("inArray")
	var minItems, maxItems *uint64
	var unique *bool
	if isArray {
		af := &schema_j5pb.ArrayField{Items: field}
		if ndBool("hasArrayRules") {
			minItems, maxItems = verifSmallU64Ptr("minItems", 3), verifSmallU64Ptr("maxItems", 3)
			unique = verifBoolPtr("uniqueItems")
			af.Rules = &schema_j5pb.ArrayField_Rules{MinItems: minItems, MaxItems: maxItems, UniqueItems: unique}
		}
		field = &schema_j5pb.Field{Type: &schema_j5pb.Field_Array{Array: af}}
	}
	required := ndBool("required")
	optional := false
	if !required && !isArray {
		optional = ndBool("optional")
	}
	enum := &schema_j5pb.Enum{Name: "Mood", Prefix: "MOOD_", Options: []*schema_j5pb.Enum_Option{{Name: "GLAD"}, {Name: "SAD"}, {Name: "MAD"}}}
	if kind == rkEnum && ndBool("explicitUnspecified") {
		// the zero value listed explicitly as the first option: same numbers
		enum.Options = append([]*schema_j5pb.Enum_Option{{Name: "UNSPECIFIED"}}, enum.Options...)
	}
	src := verifSourceFile(
		verifObjectElement("Thing", []*schema_j5pb.ObjectProperty{{Name: "f", Schema: field, Required: required, ExplicitlyOptional: optional}}),
		&sourcedef_j5pb.RootElement{Type: &sourcedef_j5pb.RootElement_Enum{Enum: enum}})
	files, err := verifCompile(src)
	verifAssert(err == nil && len(files) == 1, "admissible-rules-accepted"+tag)
	if err != nil || len(files) != 1 {
		return
	}
	msg := verifFindMessage(files[0], "Thing")
	if msg == nil || len(msg.Field) != 1 {
		verifFail("field-missing")
		return
	}
	fd := msg.Field[0]
	verifAssert((fd.GetLabel() == descriptorpb.FieldDescriptorProto_LABEL_REPEATED) == isArray, "cardinality"+tag)
	fc, _ := proto.GetExtension(fd.Options, validate.E_Field).(*validate.FieldConstraints)

	// candidate value
	env := &verifEvalEnv{kind: kind, declaredPattern: d.pattern, defined: func(n int32) bool { return verifAll(n >= 0, n <= 3) }}
	var cand *verifCand
	want := true
	env.presence = optional
	if isArray {
		n := ndIntRange("items", 0, verifParam("N", 2))
		cand = &verifCand{set: n > 0}
		for i := 0; i < n; i++ {
			it := verifDrawCand(kind, "item", S)
			cand.items = append(cand.items, it)
			want = verifAll(want, d.accepts(it))
		}
		if required {
			want = verifAll(want, n > 0)
		}
		if minItems != nil {
			want = verifAll(want, uint64(n) >= *minItems)
		}
		if maxItems != nil {
			want = verifAll(want, uint64(n) <= *maxItems)
		}
		if unique != nil && *unique {
			for i := range cand.items {
				for k := i + 1; k < len(cand.items); k++ {
					want = verifAll(want, !verifCandEqual(cand.items[i], cand.items[k], kind))
				}
			}
		}
	} else {
		cand = verifDrawCand(kind, "value", S)
		// presence: explicit for optional fields; otherwise the zero value is
		// "not set" for `required`, and is still subject to the other rules
		zero := false
		switch kind {
		case rkString, rkKey, rkBytes:
			zero = len(cand.str) == 0
		case rkBool:
			zero = !cand.b
		case rkEnum:
			zero = cand.enum == 0
		}
		if optional {
			cand.set = ndBool("present")
			want = verifAny(!cand.set, d.accepts(cand))
		} else {
			cand.set = !zero
			want = d.accepts(cand)
			if required {
				want = verifAll(want, cand.set)
			}
		}
	}
	got := verifEvalField(fc, isArray, cand, env)
	verifAssert(got == want, "accepts-iff-declared-rules"+tag)
}

// ---------- C13: appended enum option with an arbitrary name ----------

// HarnessEnumAppendNames: an enum with 0..2 options (optionally led by an
// explicit UNSPECIFIED option) gets one more option appended whose *name* is
// symbolic (1..L characters of A-Z and _): every value of the compiled enum
// keeps name and number, and exactly one value is added, with the next number.
func HarnessEnumAppendNames() {
	L := verifParam("L", 12)
	k := ndIntRange("options", 0, 2)
	lead := ndChoice("explicitZero", 3)
	base := []*schema_j5pb.Enum_Option{}
	switch lead {
	case 1:
		base = append(base, &schema_j5pb.Enum_Option{Name: "UNSPECIFIED"})
	case 2:
		base = append(base, &schema_j5pb.Enum_Option{Name: "KIND_UNSPECIFIED"})
	}
	for i := 0; i < k; i++ {
		base = append(base, &schema_j5pb.Enum_Option{Name: []string{"A", "B"}[i]})
	}
	n := ndIntRange("nameLen", 1, L)
	nb := make([]byte, n)
	for i := range nb {
		nb[i] = ndByte("name")
		verifAssume(verifAny(verifAll(nb[i] >= 'A', nb[i] <= 'Z'), verifAll(nb[i] == '_', i > 0)))
	}
	name := string(nb)
	// a new, distinct option name
	for _, o := range base {
		verifAssume(name != o.Name)
		verifAssume("KIND_"+name != o.Name)
		verifAssume(name != "KIND_"+o.Name)
	}
	verifAssume(name != "UNSPECIFIED")
	verifAssume(name != "KIND_UNSPECIFIED")
	if len(base) == 0 && n >= 11 {
		// the first option of an enum, when its name ends in UNSPECIFIED, is the
		// j5s way of declaring the zero value itself, not a new value
		verifAssume(name[n-11:] != "UNSPECIFIED")
	}
	build := func(appended bool) *sourcedef_j5pb.SourceFile {
		opts := []*schema_j5pb.Enum_Option{}
		for _, o := range base {
			opts = append(opts, &schema_j5pb.Enum_Option{Name: o.Name})
		}
		if appended {
			opts = append(opts, &schema_j5pb.Enum_Option{Name: name})
		}
		return verifSourceFile(&sourcedef_j5pb.RootElement{Type: &sourcedef_j5pb.RootElement_Enum{Enum: &schema_j5pb.Enum{Name: "Kind", Options: opts}}})
	}
	before, err1 := ConvertJ5File(verifDeps{}, build(false))
	after, err2 := ConvertJ5File(verifDeps{}, build(true))
	verifAssert(err1 == nil && err2 == nil, "both-compile")
	if err1 != nil || err2 != nil || len(before) != 1 || len(after) != 1 || len(before[0].EnumType) != 1 || len(after[0].EnumType) != 1 {
		if err1 == nil && err2 == nil {
			verifFail("one-enum-each")
		}
		return
	}
	a, b := before[0].EnumType[0], after[0].EnumType[0]
	verifAssert(verifSameEnumPrefix(a, b), "existing-values-unchanged")
	verifAssert(len(b.Value) == len(a.Value)+1, "exactly-one-value-added")
	if len(b.Value) == len(a.Value)+1 {
		last := b.Value[len(b.Value)-1]
		verifAssert(int(last.GetNumber()) == len(a.Value), "new-value-takes-the-next-number")
	}
}

// ---------- C13: appending to request / response / topic messages ----------

func verifServicePreserved(a, b *descriptorpb.ServiceDescriptorProto) bool {
	if a.GetName() != b.GetName() || len(b.Method) < len(a.Method) {
		return false
	}
	ok := true
	for i, m := range a.Method {
		n := b.Method[i]
		av, ap, ab := verifHTTP(m)
		bv, bp, bb := verifHTTP(n)
		ok = verifAll(ok, m.GetName() == n.GetName(), m.GetInputType() == n.GetInputType(), m.GetOutputType() == n.GetOutputType(), av == bv, ap == bp, ab == bb)
	}
	return ok
}

// HarnessAppendToServiceMessages: a service method (request with 0..1
// properties; response absent, declared empty, or with one property) and a
// publish topic message get 1..E+1 fields appended to the request, the
// response or a topic message (publish, request/reply or upsert — the latter
// two carry an implicit leading field): every file, message, field, service and method
// of the first compilation is in the second, unchanged.
func HarnessAppendToServiceMessages() {
	reqProps := ndIntRange("requestProps", 0, 1)
	respState := ndChoice("response", 3) // none, empty, one property
	target := ndChoice("appendTo", 3)    // request, response, topic message
	if target == 1 && respState == 0 {
		verifAssume(false) // nothing declared to append to
	}
	edits := 1 + ndIntRange("moreEdits", 0, verifParam("E", 0))
	topicKind := 0 // publish; reqres and upsert messages get an implicit leading field
	topicFieldsAtStart := 1
	if target == 2 {
		topicKind = ndChoice("topicKind", 3)
		topicFieldsAtStart = ndIntRange("topicFields", 0, 1)
	}
	build := func(applied int) *sourcedef_j5pb.SourceFile {
		req := []*schema_j5pb.ObjectProperty{}
		for i := 0; i < reqProps; i++ {
			req = append(req, &schema_j5pb.ObjectProperty{Name: "first", Schema: verifField(fString)})
		}
		var resp *sourcedef_j5pb.AnonymousObject
		switch respState {
		case 1:
			resp = &sourcedef_j5pb.AnonymousObject{}
		case 2:
			resp = &sourcedef_j5pb.AnonymousObject{Properties: []*schema_j5pb.ObjectProperty{{Name: "result", Schema: verifField(fString)}}}
		}
		topicFields := []*schema_j5pb.ObjectProperty{}
		for i := 0; i < topicFieldsAtStart; i++ {
			topicFields = append(topicFields, &schema_j5pb.ObjectProperty{Name: "payload", Schema: verifField(fString)})
		}
		for e := 0; e < applied; e++ {
			p := &schema_j5pb.ObjectProperty{Name: verifPropNames[4+e], Schema: verifField(fString)}
			switch target {
			case 0:
				req = append(req, p)
			case 1:
				resp.Properties = append(resp.Properties, p)
			case 2:
				topicFields = append(topicFields, p)
			}
		}
		svcName, base, evt := "Widget", "/a/v1", "Created"
		svc := &sourcedef_j5pb.Service{Name: &svcName, BasePath: &base, Methods: []*sourcedef_j5pb.APIMethod{
			{Name: "Ping", HttpPath: "/ping", HttpMethod: client_j5pb.HTTPMethod_POST, Request: &sourcedef_j5pb.AnonymousObject{Properties: req}, Response: resp}}}
		topic := &sourcedef_j5pb.Topic{Name: "Gadget", Type: &sourcedef_j5pb.TopicType{Type: &sourcedef_j5pb.TopicType_Publish_{Publish: &sourcedef_j5pb.TopicType_Publish{
			Messages: []*sourcedef_j5pb.TopicMethod{{Name: &evt, Fields: topicFields}}}}}}
		switch topicKind {
		case 1:
			topic.Type = &sourcedef_j5pb.TopicType{Type: &sourcedef_j5pb.TopicType_Reqres{Reqres: &sourcedef_j5pb.TopicType_ReqRes{
				Request: []*sourcedef_j5pb.TopicMethod{{Fields: topicFields}},
				Reply:   []*sourcedef_j5pb.TopicMethod{{Fields: []*schema_j5pb.ObjectProperty{{Name: "answer", Schema: verifField(fString)}}}},
			}}}
		case 2:
			topic.Type = &sourcedef_j5pb.TopicType{Type: &sourcedef_j5pb.TopicType_Upsert_{Upsert: &sourcedef_j5pb.TopicType_Upsert{
				EntityName: "a.v1.Thing", Message: &sourcedef_j5pb.TopicMethod{Fields: topicFields}}}}
		}
		return verifSourceFile(
			&sourcedef_j5pb.RootElement{Type: &sourcedef_j5pb.RootElement_Service{Service: svc}},
			&sourcedef_j5pb.RootElement{Type: &sourcedef_j5pb.RootElement_Topic{Topic: topic}})
	}
	before, err1 := verifCompile(build(0))
	after, err2 := verifCompile(build(edits))
	verifAssert(err1 == nil && err2 == nil, "both-compile")
	if err1 != nil || err2 != nil {
		return
	}
	for _, fa := range before {
		fb := verifFindFile(after, fa.GetName())
		verifAssert(fb != nil, "every-file-still-emitted")
		if fb == nil {
			continue
		}
		verifAssert(verifFilePreserved(fa, fb), "existing-messages-unchanged")
		for _, sa := range fa.Service {
			sb := verifFindService(fb, sa.GetName())
			verifAssert(sb != nil && verifServicePreserved(sa, sb), "existing-services-and-methods-unchanged")
		}
	}
}

// ---------- C07: the dependency summary names every referenced package ----------

// HarnessSummaryDependencies: SourceSummary decides which other packages are
// loaded before a file is compiled. A property referring to a type of another
// package — directly, as an array item or as a map value — must be listed in
// TypeDependencies, or the file only compiles when something else happens to
// load that package.
func HarnessSummaryDependencies() {
	kind := []int{fObjectRef, fOneofRef, fEnumRef}[ndChoice("kind", 3)]
	card := ndChoice("cardinality", 3)
	inOneof := ndBool("inOneof")
	if inOneof && card != 0 {
		verifAssume(false)
	}
	f := verifField(kind)
	switch card {
	case 1:
		f = &schema_j5pb.Field{Type: &schema_j5pb.Field_Array{Array: &schema_j5pb.ArrayField{Items: f}}}
	case 2:
		f = &schema_j5pb.Field{Type: &schema_j5pb.Field_Map{Map: &schema_j5pb.MapField{ItemSchema: f}}}
	}
	props := []*schema_j5pb.ObjectProperty{{Name: "ref", Schema: f}}
	el := verifObjectElement("Thing", props)
	if inOneof {
		el = verifOneofElement("Thing", props)
	}
	summary, err := SourceSummary(verifSourceFile(el), verifWarnings{})
	verifAssert(err == nil && summary != nil, "summary-built")
	if err != nil || summary == nil {
		return
	}
	want := []string{"Foreign", "ForeignOneof", "Colour"}[[]int{fObjectRef, fOneofRef, fEnumRef}[0]-fObjectRef]
	switch kind {
	case fOneofRef:
		want = "ForeignOneof"
	case fEnumRef:
		want = "Colour"
	}
	found := false
	for _, dep := range summary.TypeDependencies {
		if dep.Package == "other.v1" && dep.Schema == want {
			found = true
		}
	}
	verifAssert(found, "foreign-type-listed-as-dependency")
}

// ---------- C07: every documented way of naming an imported package ----------

// HarnessImportSpellings: a type of another package can be referred to by the
// full package name, by the package's short name (the segment before the
// version: "other" for other.v1 and for deep.other.v1), or by an alias given in
// the import; each spelling must resolve to the same type and import its file.
func HarnessImportSpellings() {
	deep := ndBool("threeSegmentPackage")
	pkg := "other.v1"
	if deep {
		pkg = "deep.other.v1"
	}
	imp := &sourcedef_j5pb.Import{Path: pkg}
	spelling := ndChoice("spelling", 3)
	refPkg := pkg
	switch spelling {
	case 1:
		refPkg = "other" // the short name
	case 2:
		imp.Alias = "oth"
		refPkg = "oth"
	}
	f := &schema_j5pb.Field{Type: &schema_j5pb.Field_Object{Object: &schema_j5pb.ObjectField{Schema: &schema_j5pb.ObjectField_Ref{Ref: &schema_j5pb.Ref{Package: refPkg, Schema: "Foreign"}}}}}
	src := &sourcedef_j5pb.SourceFile{Path: "a/v1/x.j5s", Package: &sourcedef_j5pb.Package{Name: "a.v1"}, Imports: []*sourcedef_j5pb.Import{imp},
		Elements: []*sourcedef_j5pb.RootElement{verifObjectElement("Thing", []*schema_j5pb.ObjectProperty{{Name: "ref", Schema: f}})}}
	summary, err := SourceSummary(src, verifWarnings{})
	verifAssert(err == nil && summary != nil, "summary-built")
	if err != nil || summary == nil {
		return
	}
	found := false
	for _, dep := range summary.TypeDependencies {
		if dep.Package == pkg && dep.Schema == "Foreign" {
			found = true
		}
	}
	verifAssert(found, "dependency-on-the-full-package-name")
	files, err := ConvertJ5File(verifSelfDeps{summary: summary}, src)
	verifAssert(err == nil && len(files) == 1, "every-spelling-compiles")
	if err != nil || len(files) != 1 {
		return
	}
	msg := verifFindMessage(files[0], "Thing")
	if msg == nil || len(msg.Field) != 1 {
		verifFail("field-emitted")
		return
	}
	verifAssert(msg.Field[0].GetTypeName() == "."+pkg+".Foreign", "resolves-to-the-imported-type")
	want := "other/v1/foreign.proto"
	if deep {
		want = "deep/other/v1/foreign.proto"
	}
	verifAssert(verifHasDep(files[0], want), "imported-type-file-is-a-dependency")
}

// ---------- C04: a declared enum read back from the compiled descriptor ----------

// HarnessEnumReadBack: an enum (zero option implicit or declared explicitly;
// descriptions and info on any option incl. the zero one; info fields or not)
// compiled, viewed through fakedesc and reflected by the real schema cache
// through a message that refers to it, exports to the declared enum: name,
// prefix, every option with its number, description and info, and the info fields.
func HarnessEnumReadBack() {
	explicitZero := ndBool("explicitZeroOption")
	withInfo := ndBool("optionInfo")
	withFields := ndBool("infoFields")
	withDesc := ndBool("descriptions")
	k := ndIntRange("options", 1, 2)
	opts := []*schema_j5pb.Enum_Option{}
	if explicitZero {
		opts = append(opts, &schema_j5pb.Enum_Option{Name: "UNSPECIFIED"})
	}
	for i := 0; i < k; i++ {
		opts = append(opts, &schema_j5pb.Enum_Option{Name: []string{"ONE", "TWO"}[i]})
	}
	for i, o := range opts {
		if withInfo {
			o.Info = map[string]string{"colour": []string{"grey", "red", "blue"}[i]}
		}
		if withDesc {
			o.Description = []string{"nothing chosen", "first", "second"}[i]
		}
	}
	enum := &schema_j5pb.Enum{Name: "Kind", Options: opts}
	if withFields {
		enum.Info = []*schema_j5pb.Enum_OptionInfoField{{Name: "colour", Label: "Colour"}}
	}
	// where the enum is declared: at top level, or inline in the holder after a
	// map property / after an inline object (the holder then has nested
	// messages before its nested enum)
	placement := ndChoice("placement", 3)
	enum.Description = ""
	if withDesc {
		enum.Description = "the kinds"
	}
	props := []*schema_j5pb.ObjectProperty{}
	elements := []*sourcedef_j5pb.RootElement{}
	switch placement {
	case 0:
		props = append(props, &schema_j5pb.ObjectProperty{Name: "kind", Schema: &schema_j5pb.Field{Type: &schema_j5pb.Field_Enum{Enum: &schema_j5pb.EnumField{
			Schema: &schema_j5pb.EnumField_Ref{Ref: &schema_j5pb.Ref{Schema: "Kind"}}}}}})
		elements = append(elements, &sourcedef_j5pb.RootElement{Type: &sourcedef_j5pb.RootElement_Enum{Enum: enum}})
	case 1:
		props = append(props, &schema_j5pb.ObjectProperty{Name: "tags", Schema: &schema_j5pb.Field{Type: &schema_j5pb.Field_Map{Map: &schema_j5pb.MapField{ItemSchema: verifField(fString)}}}})
	case 2:
		props = append(props, &schema_j5pb.ObjectProperty{Name: "part", Schema: verifField(fObjectInline)})
	}
	if placement != 0 {
		props = append(props, &schema_j5pb.ObjectProperty{Name: "kind", Schema: &schema_j5pb.Field{Type: &schema_j5pb.Field_Enum{Enum: &schema_j5pb.EnumField{
			Schema: &schema_j5pb.EnumField_Enum{Enum: enum}}}}})
	}
	holder := verifObjectElement("Holder", props)
	files, err := verifCompile(verifSourceFile(append([]*sourcedef_j5pb.RootElement{holder}, elements...)...))
	verifAssert(err == nil, "enum-compiles")
	if err != nil {
		return
	}
	u := verifUniverse(files)
	cache := j5schema.NewSchemaCache()
	if _, err := cache.Schema(u.Message("a.v1.Holder")); err != nil {
		verifFail("holder-reflects")
		return
	}
	var got *schema_j5pb.Enum
	for _, ref := range j5schema.VerifCachePackages(cache)["a.v1"].Schemas {
		if ref.To != nil {
			if e := ref.To.ToJ5Root().GetEnum(); e != nil {
				got = e // the only enum of the package
			}
		}
	}
	if got == nil {
		verifFail("enum-reflected")
		return
	}
	// the declared enum with the defaults the language defines made explicit
	want := []*schema_j5pb.Enum_Option{}
	if !explicitZero {
		want = append(want, &schema_j5pb.Enum_Option{Name: "UNSPECIFIED", Number: 0})
	}
	for _, o := range opts {
		want = append(want, &schema_j5pb.Enum_Option{Name: o.Name, Number: int32(len(want)), Description: o.Description, Info: o.Info})
	}
	if placement == 0 {
		verifAssert(got.Name == "Kind" && got.Prefix == "KIND_", "enum-name-and-default-prefix")
	}
	verifAssert(got.Description == enum.Description, "enum-description")
	verifAssert(len(got.Options) == len(want), "option-count")
	if len(got.Options) == len(want) {
		for i := range want {
			g, w := got.Options[i], want[i]
			verifAssert(g.Name == w.Name && g.Number == w.Number, "option-name-and-number")
			verifAssert(g.Description == w.Description, "option-description")
			verifAssert(len(g.Info) == len(w.Info) && (len(w.Info) == 0 || g.Info["colour"] == w.Info["colour"]), "option-info")
		}
	}
	verifAssert(len(got.Info) == len(enum.Info) && (len(enum.Info) == 0 || (got.Info[0].Name == "colour" && got.Info[0].Label == "Colour")), "info-fields")
}

// HarnessAppendServiceNameCollision (C13): a service (or topic) appended at the
// end of a file generates messages named <Method>Request / <Method>Response /
// <Name>Message in a sub-package; when the file already declares an object of
// that very name which a field refers to, the existing field must keep pointing
// at the existing object.
func HarnessAppendServiceNameCollision() {
	which := ndChoice("collidingName", 3)
	objName := []string{"LaterRequest", "LaterResponse", "LaterMessage"}[which]
	build := func(appended bool) *sourcedef_j5pb.SourceFile {
		els := []*sourcedef_j5pb.RootElement{
			verifObjectElement(objName, []*schema_j5pb.ObjectProperty{{Name: "a", Schema: verifField(fString)}}),
			verifObjectElement("Holder", []*schema_j5pb.ObjectProperty{{Name: "req", Schema: &schema_j5pb.Field{Type: &schema_j5pb.Field_Object{Object: &schema_j5pb.ObjectField{
				Schema: &schema_j5pb.ObjectField_Ref{Ref: &schema_j5pb.Ref{Schema: objName}}}}}}}),
		}
		if appended {
			if which == 2 {
				evt := "Later"
				els = append(els, &sourcedef_j5pb.RootElement{Type: &sourcedef_j5pb.RootElement_Topic{Topic: &sourcedef_j5pb.Topic{Name: "Gadget", Type: &sourcedef_j5pb.TopicType{
					Type: &sourcedef_j5pb.TopicType_Publish_{Publish: &sourcedef_j5pb.TopicType_Publish{Messages: []*sourcedef_j5pb.TopicMethod{{Name: &evt,
						Fields: []*schema_j5pb.ObjectProperty{{Name: "payload", Schema: verifField(fString)}}}}}}}}}})
			} else {
				svcName, base := "Widget", "/a/v1"
				els = append(els, &sourcedef_j5pb.RootElement{Type: &sourcedef_j5pb.RootElement_Service{Service: &sourcedef_j5pb.Service{Name: &svcName, BasePath: &base,
					Methods: []*sourcedef_j5pb.APIMethod{{Name: "Later", HttpPath: "/later", HttpMethod: client_j5pb.HTTPMethod_POST,
						Request:  &sourcedef_j5pb.AnonymousObject{Properties: []*schema_j5pb.ObjectProperty{{Name: "x", Schema: verifField(fString)}}},
						Response: &sourcedef_j5pb.AnonymousObject{Properties: []*schema_j5pb.ObjectProperty{{Name: "y", Schema: verifField(fString)}}}}}}}})
			}
		}
		return verifSourceFile(els...)
	}
	before, err1 := verifCompile(build(false))
	after, err2 := verifCompile(build(true))
	verifAssert(err1 == nil && err2 == nil, "both-compile")
	if err1 != nil || err2 != nil {
		return
	}
	for _, fa := range before {
		fb := verifFindFile(after, fa.GetName())
		verifAssert(fb != nil, "every-file-still-emitted")
		if fb != nil {
			verifAssert(verifFilePreserved(fa, fb), "existing-messages-and-field-types-unchanged")
		}
	}
}
