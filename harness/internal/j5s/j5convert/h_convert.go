package j5convert

import (
	"buf.build/gen/go/bufbuild/protovalidate/protocolbuffers/go/buf/validate"
	"github.com/iancoleman/strcase"
	"github.com/pentops/j5/gen/j5/client/v1/client_j5pb"
	"github.com/pentops/j5/gen/j5/ext/v1/ext_j5pb"
	"github.com/pentops/j5/gen/j5/list/v1/list_j5pb"
	"github.com/pentops/j5/gen/j5/messaging/v1/messaging_j5pb"
	"github.com/pentops/j5/gen/j5/schema/v1/schema_j5pb"
	"github.com/pentops/j5/gen/j5/source/v1/source_j5pb"
	"github.com/pentops/j5/gen/j5/sourcedef/v1/sourcedef_j5pb"
	"github.com/pentops/j5/internal/bcl/errpos"
	"github.com/pentops/j5/lib/j5schema"
	"google.golang.org/genproto/googleapis/api/annotations"
	"google.golang.org/protobuf/proto"
	"google.golang.org/protobuf/types/descriptorpb"
)

// ---------- environment: a resolver for the references the generators use ----------

type verifDeps struct{}

func (verifDeps) ResolveType(pkg string, name string) (*TypeRef, error) {
	switch {
	case pkg == "other.v1" && name == "Foreign":
		return &TypeRef{Package: pkg, Name: name, File: "other/v1/foreign.proto", MessageRef: &MessageRef{}}, nil
	case pkg == "other.v1" && name == "ForeignOneof":
		return &TypeRef{Package: pkg, Name: name, File: "other/v1/foreign.proto", MessageRef: &MessageRef{Oneof: true}}, nil
	case pkg == "other.v1" && name == "Colour":
		return &TypeRef{Package: pkg, Name: name, File: "other/v1/colour.proto", EnumRef: &EnumRef{Prefix: "COLOUR_", ValMap: map[string]int32{"COLOUR_UNSPECIFIED": 0, "COLOUR_RED": 1, "COLOUR_BLUE": 2}}}, nil
	case pkg == "deep.other.v1" && name == "Foreign":
		return &TypeRef{Package: pkg, Name: name, File: "deep/other/v1/foreign.proto", MessageRef: &MessageRef{}}, nil
	case pkg == "a.v1" && name == "Local":
		return &TypeRef{Package: pkg, Name: name, File: "a/v1/local.j5s.proto", MessageRef: &MessageRef{}}, nil
	}
	return nil, &TypeNotFoundError{Package: pkg, Name: name}
}

func verifBoolPtr(name string) *bool {
	switch ndChoice(name, 3) {
	case 1:
		f := false
		return &f
	case 2:
		t := true
		return &t
	}
	return nil
}

func verifU64Ptr(name string) *uint64 {
	if ndBool(name + "Set") {
		v := ndUint64(name)
		return &v
	}
	return nil
}

// ---------- field generator ----------

const (
	fString = iota
	fBool
	fInt32
	fInt64
	fUint32
	fUint64
	fFloat32
	fFloat64
	fBytes
	fDate
	fDecimal
	fTimestamp
	fKey
	fAny
	fObjectRef
	fObjectInline
	fOneofRef
	fOneofInline
	fEnumRef
	fEnumInline
	fKinds
)

var verifFieldName = []string{"string", "bool", "int32", "int64", "uint32", "uint64", "float32", "float64", "bytes", "date", "decimal",
	"timestamp", "key", "any", "object-ref", "object-inline", "oneof-ref", "oneof-inline", "enum-ref", "enum-inline"}

func verifIntFormat(kind int) schema_j5pb.IntegerField_Format {
	switch kind {
	case fInt32:
		return schema_j5pb.IntegerField_FORMAT_INT32
	case fInt64:
		return schema_j5pb.IntegerField_FORMAT_INT64
	case fUint32:
		return schema_j5pb.IntegerField_FORMAT_UINT32
	}
	return schema_j5pb.IntegerField_FORMAT_UINT64
}

// verifField builds a field of the given kind without rules.
func verifField(kind int) *schema_j5pb.Field {
	switch kind {
	case fString:
		return &schema_j5pb.Field{Type: &schema_j5pb.Field_String_{String_: &schema_j5pb.StringField{}}}
	case fBool:
		return &schema_j5pb.Field{Type: &schema_j5pb.Field_Bool{Bool: &schema_j5pb.BoolField{}}}
	case fInt32, fInt64, fUint32, fUint64:
		return &schema_j5pb.Field{Type: &schema_j5pb.Field_Integer{Integer: &schema_j5pb.IntegerField{Format: verifIntFormat(kind)}}}
	case fFloat32:
		return &schema_j5pb.Field{Type: &schema_j5pb.Field_Float{Float: &schema_j5pb.FloatField{Format: schema_j5pb.FloatField_FORMAT_FLOAT32}}}
	case fFloat64:
		return &schema_j5pb.Field{Type: &schema_j5pb.Field_Float{Float: &schema_j5pb.FloatField{Format: schema_j5pb.FloatField_FORMAT_FLOAT64}}}
	case fBytes:
		return &schema_j5pb.Field{Type: &schema_j5pb.Field_Bytes{Bytes: &schema_j5pb.BytesField{}}}
	case fDate:
		return &schema_j5pb.Field{Type: &schema_j5pb.Field_Date{Date: &schema_j5pb.DateField{}}}
	case fDecimal:
		return &schema_j5pb.Field{Type: &schema_j5pb.Field_Decimal{Decimal: &schema_j5pb.DecimalField{}}}
	case fTimestamp:
		return &schema_j5pb.Field{Type: &schema_j5pb.Field_Timestamp{Timestamp: &schema_j5pb.TimestampField{}}}
	case fKey:
		return &schema_j5pb.Field{Type: &schema_j5pb.Field_Key{Key: &schema_j5pb.KeyField{}}}
	case fAny:
		return &schema_j5pb.Field{Type: &schema_j5pb.Field_Any{Any: &schema_j5pb.AnyField{}}}
	case fObjectRef:
		return &schema_j5pb.Field{Type: &schema_j5pb.Field_Object{Object: &schema_j5pb.ObjectField{Schema: &schema_j5pb.ObjectField_Ref{Ref: &schema_j5pb.Ref{Package: "other.v1", Schema: "Foreign"}}}}}
	case fObjectInline:
		return &schema_j5pb.Field{Type: &schema_j5pb.Field_Object{Object: &schema_j5pb.ObjectField{Schema: &schema_j5pb.ObjectField_Object{Object: &schema_j5pb.Object{
			Properties: []*schema_j5pb.ObjectProperty{{Name: "inner", Schema: verifField(fString)}},
		}}}}}
	case fOneofRef:
		return &schema_j5pb.Field{Type: &schema_j5pb.Field_Oneof{Oneof: &schema_j5pb.OneofField{Schema: &schema_j5pb.OneofField_Ref{Ref: &schema_j5pb.Ref{Package: "other.v1", Schema: "ForeignOneof"}}}}}
	case fOneofInline:
		return &schema_j5pb.Field{Type: &schema_j5pb.Field_Oneof{Oneof: &schema_j5pb.OneofField{Schema: &schema_j5pb.OneofField_Oneof{Oneof: &schema_j5pb.Oneof{
			Properties: []*schema_j5pb.ObjectProperty{{Name: "optA", Schema: verifField(fString)}, {Name: "optB", Schema: verifField(fInt32)}},
		}}}}}
	case fEnumRef:
		return &schema_j5pb.Field{Type: &schema_j5pb.Field_Enum{Enum: &schema_j5pb.EnumField{Schema: &schema_j5pb.EnumField_Ref{Ref: &schema_j5pb.Ref{Package: "other.v1", Schema: "Colour"}}}}}
	case fEnumInline:
		return &schema_j5pb.Field{Type: &schema_j5pb.Field_Enum{Enum: &schema_j5pb.EnumField{Schema: &schema_j5pb.EnumField_Enum{Enum: &schema_j5pb.Enum{
			Options: []*schema_j5pb.Enum_Option{{Name: "ON"}, {Name: "OFF"}},
		}}}}}
	}
	return nil
}

// expected proto type / type name of a field kind, written from the README table
func verifExpectType(kind int, parent string, propName string) (descriptorpb.FieldDescriptorProto_Type, string) {
	T := func(t descriptorpb.FieldDescriptorProto_Type) (descriptorpb.FieldDescriptorProto_Type, string) {
		return t, ""
	}
	// inline types are referenced by their package-relative name
	nested := parent + "." + strcase.ToCamel(propName)
	switch kind {
	case fString, fKey:
		return T(descriptorpb.FieldDescriptorProto_TYPE_STRING)
	case fBool:
		return T(descriptorpb.FieldDescriptorProto_TYPE_BOOL)
	case fInt32:
		return T(descriptorpb.FieldDescriptorProto_TYPE_INT32)
	case fInt64:
		return T(descriptorpb.FieldDescriptorProto_TYPE_INT64)
	case fUint32:
		return T(descriptorpb.FieldDescriptorProto_TYPE_UINT32)
	case fUint64:
		return T(descriptorpb.FieldDescriptorProto_TYPE_UINT64)
	case fFloat32:
		return T(descriptorpb.FieldDescriptorProto_TYPE_FLOAT)
	case fFloat64:
		return T(descriptorpb.FieldDescriptorProto_TYPE_DOUBLE)
	case fBytes:
		return T(descriptorpb.FieldDescriptorProto_TYPE_BYTES)
	case fDate:
		return descriptorpb.FieldDescriptorProto_TYPE_MESSAGE, ".j5.types.date.v1.Date"
	case fDecimal:
		return descriptorpb.FieldDescriptorProto_TYPE_MESSAGE, ".j5.types.decimal.v1.Decimal"
	case fTimestamp:
		return descriptorpb.FieldDescriptorProto_TYPE_MESSAGE, ".google.protobuf.Timestamp"
	case fAny:
		return descriptorpb.FieldDescriptorProto_TYPE_MESSAGE, ".j5.types.any.v1.Any"
	case fObjectRef:
		return descriptorpb.FieldDescriptorProto_TYPE_MESSAGE, ".other.v1.Foreign"
	case fOneofRef:
		return descriptorpb.FieldDescriptorProto_TYPE_MESSAGE, ".other.v1.ForeignOneof"
	case fEnumRef:
		return descriptorpb.FieldDescriptorProto_TYPE_ENUM, ".other.v1.Colour"
	case fObjectInline, fOneofInline:
		return descriptorpb.FieldDescriptorProto_TYPE_MESSAGE, nested
	case fEnumInline:
		return descriptorpb.FieldDescriptorProto_TYPE_ENUM, nested
	}
	return 0, "?"
}

// the file that defines a well-known / referenced type name
func verifTypeFile(typeName string) string {
	switch typeName {
	case ".j5.types.date.v1.Date":
		return "j5/types/date/v1/date.proto"
	case ".j5.types.decimal.v1.Decimal":
		return "j5/types/decimal/v1/decimal.proto"
	case ".google.protobuf.Timestamp":
		return "google/protobuf/timestamp.proto"
	case ".j5.types.any.v1.Any":
		return "j5/types/any/v1/any.proto"
	case ".other.v1.Foreign", ".other.v1.ForeignOneof":
		return "other/v1/foreign.proto"
	case ".other.v1.Colour":
		return "other/v1/colour.proto"
	}
	return ""
}

func verifHasDep(fd *descriptorpb.FileDescriptorProto, dep string) bool {
	for _, d := range fd.Dependency {
		if d == dep {
			return true
		}
	}
	return false
}

func verifSourceFile(elements ...*sourcedef_j5pb.RootElement) *sourcedef_j5pb.SourceFile {
	return &sourcedef_j5pb.SourceFile{
		Path:     "a/v1/x.j5s",
		Package:  &sourcedef_j5pb.Package{Name: "a.v1"},
		Imports:  []*sourcedef_j5pb.Import{{Path: "other.v1"}},
		Elements: elements,
	}
}

func verifObjectElement(name string, props []*schema_j5pb.ObjectProperty) *sourcedef_j5pb.RootElement {
	return &sourcedef_j5pb.RootElement{Type: &sourcedef_j5pb.RootElement_Object{Object: &sourcedef_j5pb.Object{
		Def: &schema_j5pb.Object{Name: name, Properties: props},
	}}}
}

func verifOneofElement(name string, props []*schema_j5pb.ObjectProperty) *sourcedef_j5pb.RootElement {
	return &sourcedef_j5pb.RootElement{Type: &sourcedef_j5pb.RootElement_Oneof{Oneof: &sourcedef_j5pb.Oneof{
		Def: &schema_j5pb.Oneof{Name: name, Properties: props},
	}}}
}

var verifPropNames = []string{"alpha", "betaGamma", "d", "eE", "fooBarBaz", "g1", "hH", "iota"}

func verifFindMessage(fd *descriptorpb.FileDescriptorProto, name string) *descriptorpb.DescriptorProto {
	for _, m := range fd.MessageType {
		if m.GetName() == name {
			return m
		}
	}
	return nil
}

// ---------- C02 H02a: fields of an object / oneof ----------

// verifCheckFields asserts the contract of every field of msg against props.
func verifCheckFields(fd *descriptorpb.FileDescriptorProto, msg *descriptorpb.DescriptorProto, parent string, props []*schema_j5pb.ObjectProperty, kinds []int, card []int, inOneof bool) {
	verifAssert(len(msg.Field) == len(props), "field-count")
	if len(msg.Field) != len(props) {
		return
	}
	for i, f := range msg.Field {
		p := props[i]
		tag := ":" + verifFieldName[kinds[i]]
		verifAssert(f.GetNumber() == int32(i+1), "number-is-position")
		verifAssert(f.GetName() == strcase.ToSnake(p.Name), "proto-name-is-snake-case")
		verifAssert(f.GetJsonName() == p.Name, "json-name-is-declared-name")
		wantType, wantTypeName := verifExpectType(kinds[i], parent, p.Name)
		switch card[i] {
		case 0: // singular
			verifAssert(f.GetType() == wantType && f.GetTypeName() == wantTypeName, "type"+tag)
			verifAssert(f.GetLabel() != descriptorpb.FieldDescriptorProto_LABEL_REPEATED, "singular-label"+tag)
		case 1: // array
			verifAssert(f.GetType() == wantType && f.GetTypeName() == wantTypeName, "array-item-type"+tag)
			verifAssert(f.GetLabel() == descriptorpb.FieldDescriptorProto_LABEL_REPEATED, "array-is-repeated"+tag)
		case 2: // map<string, kind>
			entry := strcase.ToCamel(strcase.ToSnake(p.Name)) + "Entry"
			verifAssert(f.GetType() == descriptorpb.FieldDescriptorProto_TYPE_MESSAGE && f.GetLabel() == descriptorpb.FieldDescriptorProto_LABEL_REPEATED, "map-is-repeated-entry"+tag)
			var em *descriptorpb.DescriptorProto
			for _, n := range msg.NestedType {
				if n.GetName() == f.GetTypeName() {
					em = n
				}
			}
			verifAssert(em != nil && f.GetTypeName() == entry, "map-entry-message-exists"+tag)
			if em != nil {
				verifAssert(em.GetOptions().GetMapEntry() && len(em.Field) == 2 &&
					em.Field[0].GetName() == "key" && em.Field[0].GetNumber() == 1 && em.Field[0].GetType() == descriptorpb.FieldDescriptorProto_TYPE_STRING &&
					em.Field[1].GetName() == "value" && em.Field[1].GetNumber() == 2 && em.Field[1].GetType() == wantType && em.Field[1].GetTypeName() == wantTypeName,
					"map-entry-shape"+tag)
			}
		}
		verifAssert(f.GetProto3Optional() == p.ExplicitlyOptional, "proto3-optional-iff-declared")
		if inOneof {
			verifAssert(f.OneofIndex != nil && f.GetOneofIndex() == 0, "oneof-member-index")
		} else {
			verifAssert(f.OneofIndex == nil, "object-field-not-in-oneof")
		}
		// required -> (buf.validate.field).required
		vr := proto.GetExtension(f.Options, validate.E_Field).(*validate.FieldConstraints)
		verifAssert((vr != nil && vr.GetRequired()) == p.Required, "required-iff-declared")
		// every referenced well-known / foreign type is imported
		if file := verifTypeFile(wantTypeName); file != "" {
			verifAssert(verifHasDep(fd, file), "type-import-present"+tag)
		}
	}
}

func HarnessConvertFields() {
	inOneof := ndBool("inOneof")
	n := ndIntRange("nprops", 1, verifParam("P", 3))
	focus := ndIntRange("focus", 0, n-1)
	props := make([]*schema_j5pb.ObjectProperty, n)
	kinds := make([]int, n)
	card := make([]int, n)
	for i := 0; i < n; i++ {
		kinds[i] = fString
		if i == focus {
			kinds[i] = ndChoice("kind", fKinds)
			if !inOneof { // proto oneofs cannot hold repeated or map fields
				card[i] = ndChoice("cardinality", 3)
			}
		}
		f := verifField(kinds[i])
		switch card[i] {
		case 1:
			f = &schema_j5pb.Field{Type: &schema_j5pb.Field_Array{Array: &schema_j5pb.ArrayField{Items: f}}}
		case 2:
			f = &schema_j5pb.Field{Type: &schema_j5pb.Field_Map{Map: &schema_j5pb.MapField{ItemSchema: f}}}
		}
		props[i] = &schema_j5pb.ObjectProperty{Name: verifPropNames[i], Schema: f}
		if i == focus {
			props[i].Required = ndBool("required")
			props[i].ExplicitlyOptional = ndBool("optional")
		}
	}
	var src *sourcedef_j5pb.SourceFile
	if inOneof {
		src = verifSourceFile(verifOneofElement("Thing", props))
	} else {
		src = verifSourceFile(verifObjectElement("Thing", props))
	}
	files, err := ConvertJ5File(verifDeps{}, src)
	if props[focus].Required && props[focus].ExplicitlyOptional {
		verifAssert(err != nil, "required-and-optional-rejected")
		return
	}
	verifAssert(err == nil, "valid-source-accepted:"+verifFieldName[kinds[focus]])
	if err != nil {
		return
	}
	verifAssert(len(files) == 1, "one-file")
	if len(files) != 1 {
		return
	}
	fd := files[0]
	verifAssert(fd.GetName() == "a/v1/x.j5s.proto" && fd.GetPackage() == "a.v1", "file-name-and-package")
	msg := verifFindMessage(fd, "Thing")
	verifAssert(msg != nil && len(fd.MessageType) == 1 && len(fd.EnumType) == 0, "exactly-the-declared-message")
	if msg == nil {
		return
	}
	verifCheckFields(fd, msg, "Thing", props, kinds, card, inOneof)
	// inline types are nested in the parent under CamelCase(field); nothing else is nested
	wantNestedMsgs, wantNestedEnums := 0, 0
	k := kinds[focus]
	if k == fObjectInline || k == fOneofInline {
		wantNestedMsgs++
	}
	if k == fEnumInline {
		wantNestedEnums++
	}
	if card[focus] == 2 {
		wantNestedMsgs++
	}
	verifAssert(len(msg.NestedType) == wantNestedMsgs && len(msg.EnumType) == wantNestedEnums, "nested-types-exactly-the-inline-ones")
	if k == fObjectInline || k == fOneofInline {
		found := false
		for _, nm := range msg.NestedType {
			if nm.GetName() == strcase.ToCamel(props[focus].Name) {
				found = true
			}
		}
		verifAssert(found, "inline-type-named-after-field")
	}
	if k == fEnumInline && len(msg.EnumType) == 1 {
		e := msg.EnumType[0]
		verifAssert(e.GetName() == strcase.ToCamel(props[focus].Name), "inline-enum-named-after-field")
	}
}

// numbering only: many properties, nothing else symbolic
func HarnessFieldNumbering() {
	n := ndIntRange("nprops", 0, verifParam("P", 6))
	props := make([]*schema_j5pb.ObjectProperty, n)
	kinds := make([]int, n)
	card := make([]int, n)
	for i := range props {
		props[i] = &schema_j5pb.ObjectProperty{Name: verifPropNames[i], Schema: verifField(fString)}
	}
	inOneof := ndBool("inOneof")
	var src *sourcedef_j5pb.SourceFile
	if inOneof {
		src = verifSourceFile(verifOneofElement("Thing", props))
	} else {
		src = verifSourceFile(verifObjectElement("Thing", props))
	}
	files, err := ConvertJ5File(verifDeps{}, src)
	verifAssert(err == nil && len(files) == 1, "accepted")
	if err != nil || len(files) != 1 {
		return
	}
	msg := verifFindMessage(files[0], "Thing")
	verifAssert(msg != nil, "message-exists")
	if msg != nil {
		verifCheckFields(files[0], msg, "Thing", props, kinds, card, inOneof)
	}
}

// ---------- C02 H02b: enums ----------

func HarnessConvertEnum() {
	names := []string{"ALPHA", "BETA", "GAMMA_DELTA", "E"}
	k := ndIntRange("options", 0, verifParam("K", 4))
	prefixMode := ndChoice("prefix", 3) // omitted, given, given-and-options-carry-it
	leadUnspecified := ndBool("leadingUnspecified")
	enumName := "ShirtSize"
	defaultPrefix := "SHIRT_SIZE_"
	prefix := ""
	if prefixMode > 0 {
		prefix = "SZ_"
	}
	eff := prefix
	if eff == "" {
		eff = defaultPrefix
	}
	var opts []*schema_j5pb.Enum_Option
	withInfo := ndBool("optionInfo")
	if leadUnspecified {
		opts = append(opts, &schema_j5pb.Enum_Option{Name: eff + "UNSPECIFIED", Number: 0})
	}
	for i := 0; i < k; i++ {
		nm := names[i]
		if prefixMode == 2 {
			nm = eff + nm
		}
		opts = append(opts, &schema_j5pb.Enum_Option{Name: nm, Number: int32(i + 1)})
	}
	if withInfo {
		// every declared option (the explicit zero option too) carries info
		for _, o := range opts {
			o.Info = map[string]string{"colour": "grey"}
		}
	}
	src := verifSourceFile(&sourcedef_j5pb.RootElement{Type: &sourcedef_j5pb.RootElement_Enum{Enum: &schema_j5pb.Enum{
		Name: enumName, Prefix: prefix, Options: opts,
	}}})
	files, err := ConvertJ5File(verifDeps{}, src)
	verifAssert(err == nil && len(files) == 1, "accepted")
	if err != nil || len(files) != 1 {
		return
	}
	fd := files[0]
	verifAssert(len(fd.EnumType) == 1 && len(fd.MessageType) == 0, "exactly-the-declared-enum")
	if len(fd.EnumType) != 1 {
		return
	}
	e := fd.EnumType[0]
	verifAssert(e.GetName() == enumName, "enum-name")
	verifAssert(len(e.Value) == k+1, "value-count-is-options-plus-unspecified")
	if len(e.Value) != k+1 {
		return
	}
	verifAssert(e.Value[0].GetNumber() == 0 && e.Value[0].GetName() == eff+"UNSPECIFIED", "zero-value-is-PREFIX_UNSPECIFIED")
	for i, v := range e.Value {
		declared := i > 0 || leadUnspecified
		xt, _ := proto.GetExtension(v.Options, ext_j5pb.E_EnumValue).(*ext_j5pb.EnumValueOptions)
		if withInfo && declared {
			verifAssert(xt != nil && len(xt.Info) == 1 && xt.Info["colour"] == "grey", "declared-option-info-carried")
		} else {
			verifAssert(xt == nil || len(xt.Info) == 0, "no-info-invented")
		}
	}
	for i := 0; i < k; i++ {
		v := e.Value[i+1]
		verifAssert(v.GetNumber() == int32(i+1), "option-number-is-position")
		verifAssert(v.GetName() == eff+names[i], "option-name-prefixed-once")
	}
}

// ---------- C07 H07b: one field, nothing else in the file: imports are complete ----------

// verifRuled builds a field of `kind` carrying its rules / list rules / ext
// according to the symbolic flags.
func verifRuled(kind int) *schema_j5pb.Field {
	f := verifField(kind)
	rules, list := verifDrawBool("rules"), verifDrawBool("listRules")
	switch t := f.Type.(type) {
	case *schema_j5pb.Field_String_:
		if rules {
			t.String_.Rules = &schema_j5pb.StringField_Rules{MinLength: verifDrawU64Ptr("minLen"), MaxLength: verifDrawU64Ptr("maxLen")}
		}
		if list {
			t.String_.ListRules = &list_j5pb.OpenTextRules{}
		}
	case *schema_j5pb.Field_Bool:
		if rules {
			t.Bool.Rules = &schema_j5pb.BoolField_Rules{Const: verifDrawBoolPtr("const")}
		}
		if list {
			t.Bool.ListRules = &list_j5pb.BoolRules{}
		}
	case *schema_j5pb.Field_Integer:
		if rules {
			t.Integer.Rules = &schema_j5pb.IntegerField_Rules{}
			if verifDrawBool("hasMax") {
				v := verifDrawI64("max")
				// admissible: inside the value range of the format
				switch kind {
				case fInt32:
					verifAssume(v >= -1<<31)
					verifAssume(v <= 1<<31-1)
				case fUint32:
					verifAssume(v >= 0)
					verifAssume(v <= 1<<32-1)
				case fUint64:
					verifAssume(v >= 0)
				}
				t.Integer.Rules.Maximum = &v
				t.Integer.Rules.ExclusiveMaximum = verifDrawBoolPtr("exMax")
			}
		}
		if list {
			t.Integer.ListRules = &list_j5pb.IntegerRules{}
		}
	case *schema_j5pb.Field_Float:
		if list {
			t.Float.ListRules = &list_j5pb.FloatRules{}
		}
	case *schema_j5pb.Field_Bytes:
		if rules {
			t.Bytes.Rules = &schema_j5pb.BytesField_Rules{MinLength: verifDrawU64Ptr("minLen"), MaxLength: verifDrawU64Ptr("maxLen")}
		}
	case *schema_j5pb.Field_Date:
		if rules {
			t.Date.Rules = &schema_j5pb.DateField_Rules{}
			if verifDrawBool("dateMin") {
				m := "2020-01-02"
				t.Date.Rules.Minimum = &m
				t.Date.Rules.ExclusiveMinimum = verifDrawBoolPtr("exMin")
			}
		}
		if list {
			t.Date.ListRules = &list_j5pb.DateRules{}
		}
	case *schema_j5pb.Field_Decimal:
		if rules {
			t.Decimal.Rules = &schema_j5pb.DecimalField_Rules{}
			if verifDrawBool("decMax") {
				m := "10.5"
				t.Decimal.Rules.Maximum = &m
				t.Decimal.Rules.ExclusiveMaximum = verifDrawBoolPtr("exMax")
			}
		}
		if list {
			t.Decimal.ListRules = &list_j5pb.DecimalRules{}
		}
	case *schema_j5pb.Field_Timestamp:
		if rules {
			t.Timestamp.Rules = &schema_j5pb.TimestampField_Rules{}
		}
	case *schema_j5pb.Field_Key:
		switch verifDrawChoice("keyFormat", 5) {
		case 1:
			t.Key.Format = &schema_j5pb.KeyFormat{Type: &schema_j5pb.KeyFormat_Uuid{Uuid: &schema_j5pb.KeyFormat_UUID{}}}
		case 2:
			t.Key.Format = &schema_j5pb.KeyFormat{Type: &schema_j5pb.KeyFormat_Id62{Id62: &schema_j5pb.KeyFormat_ID62{}}}
		case 3:
			t.Key.Format = &schema_j5pb.KeyFormat{Type: &schema_j5pb.KeyFormat_Custom_{Custom: &schema_j5pb.KeyFormat_Custom{Pattern: "^x+$"}}}
		case 4:
			t.Key.Format = &schema_j5pb.KeyFormat{Type: &schema_j5pb.KeyFormat_Informal_{Informal: &schema_j5pb.KeyFormat_Informal{}}}
		}
		if rules && !verifNoFlatten { // entity keys are singular properties
			if verifDrawBool("primary") {
				t.Key.Entity = &schema_j5pb.EntityKey{Type: &schema_j5pb.EntityKey_PrimaryKey{PrimaryKey: true}}
			} else {
				fk := "other.v1.foo"
				t.Key.Entity = &schema_j5pb.EntityKey{Type: &schema_j5pb.EntityKey_ForeignKey{ForeignKey: &schema_j5pb.EntityRef{Package: "other.v1", Entity: fk}}}
			}
		}
		if list {
			t.Key.ListRules = &list_j5pb.KeyRules{}
		}
	case *schema_j5pb.Field_Any:
		if rules {
			t.Any.OnlyDefined = true
			t.Any.Types = []string{"a.v1.Thing"}
		}
		if list {
			t.Any.ListRules = &list_j5pb.AnyRules{}
		}
	case *schema_j5pb.Field_Object:
		if rules {
			t.Object.Rules = &schema_j5pb.ObjectField_Rules{}
		}
		t.Object.Flatten = verifDrawBool("flatten")
		if verifNoFlatten {
			t.Object.Flatten = false // flattening only exists for singular object properties
		}
	case *schema_j5pb.Field_Oneof:
		if rules {
			t.Oneof.Rules = &schema_j5pb.OneofField_Rules{}
		}
		if list {
			t.Oneof.ListRules = &list_j5pb.OneofRules{}
		}
	case *schema_j5pb.Field_Enum:
		if rules {
			t.Enum.Rules = &schema_j5pb.EnumField_Rules{}
			// in / not_in by option name, including the zero (UNSPECIFIED) option
			first := "RED"
			if kind == fEnumInline {
				first = "ON"
			}
			switch verifDrawChoice("enumMembership", 4) {
			case 1:
				t.Enum.Rules.In = []string{first}
			case 2:
				t.Enum.Rules.NotIn = []string{"UNSPECIFIED"}
			case 3:
				t.Enum.Rules.NotIn = []string{"UNSPECIFIED", first}
			}
		}
		if list {
			t.Enum.ListRules = &list_j5pb.EnumRules{}
		}
	}
	return f
}

// verifCheckImports: every extension set on a field's options and every
// referenced type has its defining file among the file's dependencies
// (otherwise the link step fails on a file that contains nothing else).
func verifCheckImports(fd *descriptorpb.FileDescriptorProto, msg *descriptorpb.DescriptorProto, tag string) {
	for _, f := range msg.Field {
		if f.Options != nil {
			if proto.HasExtension(f.Options, validate.E_Field) {
				verifAssert(verifHasDep(fd, "buf/validate/validate.proto"), "validate-extension-imported"+tag)
			}
			if proto.HasExtension(f.Options, ext_j5pb.E_Field) || proto.HasExtension(f.Options, ext_j5pb.E_Key) {
				verifAssert(verifHasDep(fd, "j5/ext/v1/annotations.proto"), "j5-ext-extension-imported"+tag)
			}
			if proto.HasExtension(f.Options, list_j5pb.E_Field) {
				verifAssert(verifHasDep(fd, "j5/list/v1/annotations.proto"), "j5-list-extension-imported"+tag)
			}
		}
		if file := verifTypeFile(f.GetTypeName()); file != "" {
			verifAssert(verifHasDep(fd, file), "type-imported"+tag)
		}
	}
	if msg.Options != nil && (proto.HasExtension(msg.Options, ext_j5pb.E_Message) || proto.HasExtension(msg.Options, ext_j5pb.E_Psm)) {
		verifAssert(verifHasDep(fd, "j5/ext/v1/annotations.proto"), "message-extension-imported"+tag)
	}
	for _, n := range msg.NestedType {
		verifCheckImports(fd, n, tag)
	}
}

var verifNoFlatten bool

func HarnessFieldFeatureIsolation() {
	verifNoFlatten = false
	kind := ndChoice("kind", fKinds)
	if only := verifParam("kind", -1); only >= 0 && only != kind {
		return
	}
	tag := ":" + verifFieldName[kind]
	f := verifRuled(kind)
	card := ndChoice("cardinality", 3)
	switch card {
	case 1:
		arr := &schema_j5pb.ArrayField{Items: f}
		if ndBool("arrayRules") {
			arr.Rules = &schema_j5pb.ArrayField_Rules{MinItems: verifU64Ptr("minItems"), MaxItems: verifU64Ptr("maxItems"), UniqueItems: verifBoolPtr("unique")}
		}
		if ndBool("arrayExt") {
			sf := "item"
			arr.Ext = &schema_j5pb.ArrayField_Ext{}
			if ndBool("singleForm") {
				arr.Ext.SingleForm = &sf
			}
		}
		f = &schema_j5pb.Field{Type: &schema_j5pb.Field_Array{Array: arr}}
	case 2:
		f = &schema_j5pb.Field{Type: &schema_j5pb.Field_Map{Map: &schema_j5pb.MapField{ItemSchema: f}}}
	}
	prop := &schema_j5pb.ObjectProperty{Name: "theField", Schema: f, Required: ndBool("required")}
	src := verifSourceFile(verifObjectElement("Thing", []*schema_j5pb.ObjectProperty{prop}))
	files, err := ConvertJ5File(verifDeps{}, src)
	// everything drawn above is inside the documented language: it must be accepted
	verifAssert(err == nil, "documented-language-accepted"+tag)
	if err != nil || len(files) != 1 {
		return
	}
	msg := verifFindMessage(files[0], "Thing")
	if msg == nil {
		return
	}
	verifCheckImports(files[0], msg, tag)
}

// ---------- C07 H07a: semantic faults are reported, not crashed on ----------

func HarnessSemanticFaults() {
	fault := ndChoice("fault", 13)
	props := []*schema_j5pb.ObjectProperty{{Name: "ok", Schema: verifField(fString)}}
	var elements []*sourcedef_j5pb.RootElement
	switch fault {
	case 0: // unknown type
		props = append(props, &schema_j5pb.ObjectProperty{Name: "bad", Schema: &schema_j5pb.Field{Type: &schema_j5pb.Field_Object{Object: &schema_j5pb.ObjectField{
			Schema: &schema_j5pb.ObjectField_Ref{Ref: &schema_j5pb.Ref{Package: "nope.v1", Schema: "Missing"}}}}}})
	case 1: // required and optional
		props = append(props, &schema_j5pb.ObjectProperty{Name: "bad", Schema: verifField(fString), Required: true, ExplicitlyOptional: true})
	case 2: // nil schema
		props = append(props, &schema_j5pb.ObjectProperty{Name: "bad"})
	case 3: // nil array items
		props = append(props, &schema_j5pb.ObjectProperty{Name: "bad", Schema: &schema_j5pb.Field{Type: &schema_j5pb.Field_Array{Array: &schema_j5pb.ArrayField{}}}})
	case 4: // nil map item schema
		props = append(props, &schema_j5pb.ObjectProperty{Name: "bad", Schema: &schema_j5pb.Field{Type: &schema_j5pb.Field_Map{Map: &schema_j5pb.MapField{}}}})
	case 5: // enum ref to a message
		props = append(props, &schema_j5pb.ObjectProperty{Name: "bad", Schema: &schema_j5pb.Field{Type: &schema_j5pb.Field_Enum{Enum: &schema_j5pb.EnumField{
			Schema: &schema_j5pb.EnumField_Ref{Ref: &schema_j5pb.Ref{Package: "other.v1", Schema: "Foreign"}}}}}})
	case 6: // object ref to an enum
		props = append(props, &schema_j5pb.ObjectProperty{Name: "bad", Schema: &schema_j5pb.Field{Type: &schema_j5pb.Field_Object{Object: &schema_j5pb.ObjectField{
			Schema: &schema_j5pb.ObjectField_Ref{Ref: &schema_j5pb.Ref{Package: "other.v1", Schema: "Colour"}}}}}})
	case 7: // a top-level oneof without a name
		elements = append(elements, verifOneofElement("", []*schema_j5pb.ObjectProperty{{Name: "x", Schema: verifField(fString)}}))
	case 9: // service method without a request
		nm := "Svc"
		elements = append(elements, &sourcedef_j5pb.RootElement{Type: &sourcedef_j5pb.RootElement_Service{Service: &sourcedef_j5pb.Service{Name: &nm,
			Methods: []*sourcedef_j5pb.APIMethod{{Name: "Do", HttpPath: "do", HttpMethod: client_j5pb.HTTPMethod_POST}}}}})
	case 10: // unsupported http method
		nm := "Svc"
		elements = append(elements, &sourcedef_j5pb.RootElement{Type: &sourcedef_j5pb.RootElement_Service{Service: &sourcedef_j5pb.Service{Name: &nm,
			Methods: []*sourcedef_j5pb.APIMethod{{Name: "Do", HttpPath: "do", Request: &sourcedef_j5pb.AnonymousObject{}}}}}})
	case 11: // path parameter that is not a request property
		nm := "Svc"
		elements = append(elements, &sourcedef_j5pb.RootElement{Type: &sourcedef_j5pb.RootElement_Service{Service: &sourcedef_j5pb.Service{Name: &nm,
			Methods: []*sourcedef_j5pb.APIMethod{{Name: "Do", HttpPath: "do/:missing", HttpMethod: client_j5pb.HTTPMethod_GET, Request: &sourcedef_j5pb.AnonymousObject{}}}}}})
	case 12: // service without a name
		elements = append(elements, &sourcedef_j5pb.RootElement{Type: &sourcedef_j5pb.RootElement_Service{Service: &sourcedef_j5pb.Service{
			Methods: []*sourcedef_j5pb.APIMethod{{Name: "Do", HttpPath: "do", HttpMethod: client_j5pb.HTTPMethod_GET, Request: &sourcedef_j5pb.AnonymousObject{}}}}}})
	case 8: // unspecified float / integer format
		if ndBool("float") {
			props = append(props, &schema_j5pb.ObjectProperty{Name: "bad", Schema: &schema_j5pb.Field{Type: &schema_j5pb.Field_Float{Float: &schema_j5pb.FloatField{}}}})
		} else {
			props = append(props, &schema_j5pb.ObjectProperty{Name: "bad", Schema: &schema_j5pb.Field{Type: &schema_j5pb.Field_Integer{Integer: &schema_j5pb.IntegerField{}}}})
		}
	}
	elements = append(elements, verifObjectElement("Thing", props))
	files, err := ConvertJ5File(verifDeps{}, verifSourceFile(elements...))
	verifAssert((err != nil) != (len(files) > 0), "descriptors-xor-error")
	verifAssert(err != nil, "semantic-fault-reported")
}

// ---------- C12 H12a: integer bounds ----------

func verifAcceptsInt(r *validate.FieldConstraints, kind int, v int64) bool {
	if r == nil {
		return true
	}
	ok := true
	switch kind {
	case fInt32:
		x := r.GetInt32()
		if x == nil {
			return true
		}
		v32 := int32(v)
		switch lt := x.LessThan.(type) {
		case *validate.Int32Rules_Lt:
			ok = verifAll(ok, v32 < lt.Lt)
		case *validate.Int32Rules_Lte:
			ok = verifAll(ok, v32 <= lt.Lte)
		}
		switch gt := x.GreaterThan.(type) {
		case *validate.Int32Rules_Gt:
			ok = verifAll(ok, v32 > gt.Gt)
		case *validate.Int32Rules_Gte:
			ok = verifAll(ok, v32 >= gt.Gte)
		}
	case fInt64:
		x := r.GetInt64()
		if x == nil {
			return true
		}
		switch lt := x.LessThan.(type) {
		case *validate.Int64Rules_Lt:
			ok = verifAll(ok, v < lt.Lt)
		case *validate.Int64Rules_Lte:
			ok = verifAll(ok, v <= lt.Lte)
		}
		switch gt := x.GreaterThan.(type) {
		case *validate.Int64Rules_Gt:
			ok = verifAll(ok, v > gt.Gt)
		case *validate.Int64Rules_Gte:
			ok = verifAll(ok, v >= gt.Gte)
		}
	case fUint32:
		x := r.GetUint32()
		if x == nil {
			return true
		}
		u := uint32(v)
		switch lt := x.LessThan.(type) {
		case *validate.UInt32Rules_Lt:
			ok = verifAll(ok, u < lt.Lt)
		case *validate.UInt32Rules_Lte:
			ok = verifAll(ok, u <= lt.Lte)
		}
		switch gt := x.GreaterThan.(type) {
		case *validate.UInt32Rules_Gt:
			ok = verifAll(ok, u > gt.Gt)
		case *validate.UInt32Rules_Gte:
			ok = verifAll(ok, u >= gt.Gte)
		}
	case fUint64:
		x := r.GetUint64()
		if x == nil {
			return true
		}
		u := uint64(v)
		switch lt := x.LessThan.(type) {
		case *validate.UInt64Rules_Lt:
			ok = verifAll(ok, u < lt.Lt)
		case *validate.UInt64Rules_Lte:
			ok = verifAll(ok, u <= lt.Lte)
		}
		switch gt := x.GreaterThan.(type) {
		case *validate.UInt64Rules_Gt:
			ok = verifAll(ok, u > gt.Gt)
		case *validate.UInt64Rules_Gte:
			ok = verifAll(ok, u >= gt.Gte)
		}
	}
	return ok
}

func HarnessIntegerBounds() {
	kind := fInt32 + ndChoice("format", 4)
	tag := ":" + verifFieldName[kind]
	rules := &schema_j5pb.IntegerField_Rules{}
	hasMin, hasMax := ndBool("hasMin"), ndBool("hasMax")
	var min, max int64
	// the declared bounds are admissible for the format: inside its value range, min <= max
	lo, hi := int64(-1<<63), int64(1<<63-1)
	switch kind {
	case fInt32:
		lo, hi = -1<<31, 1<<31-1
	case fUint32:
		lo, hi = 0, 1<<32-1
	case fUint64:
		lo = 0
	}
	if hasMin {
		min = ndInt64("min")
		verifAssume(min >= lo)
		verifAssume(min <= hi)
		rules.Minimum = &min
		rules.ExclusiveMinimum = verifBoolPtr("exMin")
	}
	if hasMax {
		max = ndInt64("max")
		verifAssume(max >= lo)
		verifAssume(max <= hi)
		rules.Maximum = &max
		rules.ExclusiveMaximum = verifBoolPtr("exMax")
	}
	if hasMin && hasMax {
		verifAssume(min < max)
	}
	field := &schema_j5pb.Field{Type: &schema_j5pb.Field_Integer{Integer: &schema_j5pb.IntegerField{Format: verifIntFormat(kind), Rules: rules}}}
	src := verifSourceFile(verifObjectElement("Thing", []*schema_j5pb.ObjectProperty{{Name: "n", Schema: field}}))
	files, err := ConvertJ5File(verifDeps{}, src)
	verifAssert(err == nil && len(files) == 1, "admissible-rules-accepted"+tag)
	if err != nil || len(files) != 1 {
		return
	}
	msg := verifFindMessage(files[0], "Thing")
	if msg == nil || len(msg.Field) != 1 {
		verifFail("field-missing")
		return
	}
	ext := proto.GetExtension(msg.Field[0].Options, validate.E_Field).(*validate.FieldConstraints)
	// candidate value of the field's type
	v := ndInt64("v")
	verifAssume(v >= lo)
	verifAssume(v <= hi)
	want := true
	if hasMin {
		if rules.ExclusiveMinimum != nil && *rules.ExclusiveMinimum {
			want = verifAll(want, v > min)
		} else {
			want = verifAll(want, v >= min)
		}
	}
	if hasMax {
		if rules.ExclusiveMaximum != nil && *rules.ExclusiveMaximum {
			want = verifAll(want, v < max)
		} else {
			want = verifAll(want, v <= max)
		}
	}
	verifAssert(verifAcceptsInt(ext, kind, v) == want, "accepts-iff-declared-bounds"+tag)
}

// ---------- C13: append edits leave existing wire identities unchanged ----------

func verifSameField(a, b *descriptorpb.FieldDescriptorProto) bool {
	return verifAll(a.GetName() == b.GetName(), a.GetNumber() == b.GetNumber(), a.GetType() == b.GetType(), a.GetTypeName() == b.GetTypeName(),
		a.GetLabel() == b.GetLabel(), a.GetJsonName() == b.GetJsonName(), (a.OneofIndex == nil) == (b.OneofIndex == nil), a.GetOneofIndex() == b.GetOneofIndex(),
		a.GetProto3Optional() == b.GetProto3Optional())
}

func verifSameEnumPrefix(a, b *descriptorpb.EnumDescriptorProto) bool {
	// every value of a is in b at the same index with the same name and number
	if a.GetName() != b.GetName() || len(b.Value) < len(a.Value) {
		return false
	}
	ok := true
	for i, v := range a.Value {
		ok = verifAll(ok, v.GetName() == b.Value[i].GetName(), v.GetNumber() == b.Value[i].GetNumber())
	}
	return ok
}

// verifMessagePreserved: every field / nested type / nested enum of a is in b, unchanged.
func verifMessagePreserved(a, b *descriptorpb.DescriptorProto) bool {
	if a.GetName() != b.GetName() || len(b.Field) < len(a.Field) || len(b.NestedType) < len(a.NestedType) || len(b.EnumType) < len(a.EnumType) {
		return false
	}
	ok := true
	for i, f := range a.Field {
		ok = verifAll(ok, verifSameField(f, b.Field[i]))
	}
	for _, n := range a.NestedType {
		var m *descriptorpb.DescriptorProto
		for _, x := range b.NestedType {
			if x.GetName() == n.GetName() {
				m = x
			}
		}
		if m == nil {
			return false
		}
		ok = verifAll(ok, verifMessagePreserved(n, m))
	}
	for _, e := range a.EnumType {
		var m *descriptorpb.EnumDescriptorProto
		for _, x := range b.EnumType {
			if x.GetName() == e.GetName() {
				m = x
			}
		}
		if m == nil {
			return false
		}
		ok = verifAll(ok, verifSameEnumPrefix(e, m))
	}
	return ok
}

func verifFilePreserved(a, b *descriptorpb.FileDescriptorProto) bool {
	if a.GetName() != b.GetName() || a.GetPackage() != b.GetPackage() {
		return false
	}
	ok := true
	for _, m := range a.MessageType {
		x := verifFindMessage(b, m.GetName())
		if x == nil {
			return false
		}
		ok = verifAll(ok, verifMessagePreserved(m, x))
	}
	for _, e := range a.EnumType {
		var x *descriptorpb.EnumDescriptorProto
		for _, y := range b.EnumType {
			if y.GetName() == e.GetName() {
				x = y
			}
		}
		if x == nil {
			return false
		}
		ok = verifAll(ok, verifSameEnumPrefix(e, x))
	}
	return ok
}

const (
	eObjectField = iota
	eOneofField
	eEnumOption
	eTopLevelObject
	eTopLevelEnum
	eNestedInlineField
	eEdits
)

func HarnessAppendPreservesIdentities() {
	// the base package: an object (with one symbolic-kind property), a oneof, an enum
	n := ndIntRange("nprops", 0, verifParam("P", 2))
	focusKind := ndChoice("kind", fKinds)
	focusCard := ndChoice("cardinality", 3)
	k := ndIntRange("options", 0, 2)
	edit := ndChoice("edit", eEdits)
	edits := 1 + ndIntRange("moreEdits", 0, verifParam("E", 0))
	// the appended declaration: a scalar, an inline object, an inline enum or a foreign ref
	newKind := []int{fString, fObjectInline, fEnumInline, fObjectRef}[ndChoice("newKind", 4)]
	build := func(applied int) *sourcedef_j5pb.SourceFile {
		props := []*schema_j5pb.ObjectProperty{}
		for i := 0; i < n; i++ {
			f := verifField(fString)
			if i == 0 {
				f = verifField(focusKind)
				switch focusCard {
				case 1:
					f = &schema_j5pb.Field{Type: &schema_j5pb.Field_Array{Array: &schema_j5pb.ArrayField{Items: f}}}
				case 2:
					f = &schema_j5pb.Field{Type: &schema_j5pb.Field_Map{Map: &schema_j5pb.MapField{ItemSchema: f}}}
				}
			}
			props = append(props, &schema_j5pb.ObjectProperty{Name: verifPropNames[i], Schema: f})
		}
		oneofProps := []*schema_j5pb.ObjectProperty{{Name: "one", Schema: verifField(fString)}, {Name: "two", Schema: verifField(fObjectInline)}}
		opts := []*schema_j5pb.Enum_Option{}
		for i := 0; i < k; i++ {
			opts = append(opts, &schema_j5pb.Enum_Option{Name: []string{"A", "B"}[i]})
		}
		var extraElements []*sourcedef_j5pb.RootElement
		for e := 0; e < applied; e++ {
			nm := verifPropNames[4+e]
			switch edit {
			case eObjectField:
				props = append(props, &schema_j5pb.ObjectProperty{Name: nm, Schema: verifField(newKind)})
			case eOneofField:
				oneofProps = append(oneofProps, &schema_j5pb.ObjectProperty{Name: nm, Schema: verifField(newKind)})
			case eEnumOption:
				opts = append(opts, &schema_j5pb.Enum_Option{Name: []string{"Y", "Z"}[e]})
			case eTopLevelObject:
				extraElements = append(extraElements, verifObjectElement([]string{"Later", "Later2"}[e], []*schema_j5pb.ObjectProperty{{Name: "x", Schema: verifField(newKind)}}))
			case eTopLevelEnum:
				extraElements = append(extraElements, &sourcedef_j5pb.RootElement{Type: &sourcedef_j5pb.RootElement_Enum{Enum: &schema_j5pb.Enum{
					Name: []string{"LaterEnum", "LaterEnum2"}[e], Options: []*schema_j5pb.Enum_Option{{Name: "Q"}}}}})
			case eNestedInlineField:
				// a field appended inside the inline object of the oneof's second option
				inl := oneofProps[1].Schema.GetObject().GetObject()
				inl.Properties = append(inl.Properties, &schema_j5pb.ObjectProperty{Name: nm, Schema: verifField(newKind)})
			}
		}
		els := []*sourcedef_j5pb.RootElement{
			verifObjectElement("Thing", props),
			verifOneofElement("Choice", oneofProps),
			{Type: &sourcedef_j5pb.RootElement_Enum{Enum: &schema_j5pb.Enum{Name: "Kind", Options: opts}}},
		}
		els = append(els, extraElements...)
		return verifSourceFile(els...)
	}
	before, err1 := ConvertJ5File(verifDeps{}, build(0))
	after, err2 := ConvertJ5File(verifDeps{}, build(edits))
	verifAssert(err1 == nil && err2 == nil, "both-compile")
	if err1 != nil || err2 != nil {
		return
	}
	verifAssert(len(before) == 1 && len(after) == 1, "one-file-each")
	if len(before) != 1 || len(after) != 1 {
		return
	}
	verifAssert(verifFilePreserved(before[0], after[0]), "existing-elements-unchanged")
}

// ---------- C14 ----------

// H14b: the import list is sorted, duplicate free and independent of the order
// in which imports were registered.
func HarnessImportOrder() {
	n := ndIntRange("n", 0, verifParam("N", 4))
	paths := make([]string, n)
	for i := range paths {
		// symbolic path "x/<c>.proto" over a small alphabet
		c := 'a' + ndByte("c")%4
		paths[i] = "x/" + string([]byte{c}) + ".proto"
	}
	a := newFileContext("a/v1/x.j5s.proto")
	for _, p := range paths {
		a.ensureImport(p)
	}
	// a second registration order: rotate by a symbolic amount and optionally reverse
	b := newFileContext("a/v1/x.j5s.proto")
	rot := 0
	if n > 0 {
		rot = ndIntRange("rot", 0, n-1)
	}
	rev := ndBool("reverse")
	for i := 0; i < n; i++ {
		k := (i + rot) % n
		if rev {
			k = n - 1 - k
		}
		b.ensureImport(paths[k])
	}
	da, db := a.fdp.Dependency, b.fdp.Dependency
	for i := 1; i < len(da); i++ {
		verifAssert(da[i-1] < da[i], "dependencies-sorted-and-unique")
	}
	verifAssert(len(da) == len(db), "same-import-count-for-any-order")
	if len(da) == len(db) {
		for i := range da {
			verifAssert(da[i] == db[i], "same-imports-for-any-order")
		}
	}
	for _, p := range paths {
		found := false
		for _, d := range da {
			if d == p {
				found = true
			}
		}
		verifAssert(found, "every-registered-import-present")
	}
}

func verifFileEqual(a, b *descriptorpb.FileDescriptorProto) bool {
	if len(a.Dependency) != len(b.Dependency) || len(a.MessageType) != len(b.MessageType) || len(a.EnumType) != len(b.EnumType) || len(a.Service) != len(b.Service) {
		return false
	}
	ok := verifAll(a.GetName() == b.GetName(), a.GetPackage() == b.GetPackage())
	for i := range a.Dependency {
		ok = verifAll(ok, a.Dependency[i] == b.Dependency[i])
	}
	for i := range a.MessageType {
		ok = verifAll(ok, verifMessagePreserved(a.MessageType[i], b.MessageType[i]), verifMessagePreserved(b.MessageType[i], a.MessageType[i]))
	}
	for i := range a.EnumType {
		ok = verifAll(ok, verifSameEnumPrefix(a.EnumType[i], b.EnumType[i]), len(a.EnumType[i].Value) == len(b.EnumType[i].Value))
	}
	for i := range a.Service {
		ok = verifAll(ok, a.Service[i].GetName() == b.Service[i].GetName(), len(a.Service[i].Method) == len(b.Service[i].Method))
	}
	return ok
}

// H14a: converting the same source twice gives the same files in the same
// order. Run with engine.maporder > 0: every range over a Go map with up to
// that many entries is a choice point, the two runs get independent orders.
func HarnessConvertDeterministic() {
	kind := ndChoice("kind", fKinds)
	build := func() *sourcedef_j5pb.SourceFile {
		src := verifSourceFile(
			verifObjectElement("Thing", []*schema_j5pb.ObjectProperty{
				{Name: "alpha", Schema: verifField(kind)},
				{Name: "beta", Schema: verifField(fDate)},
				{Name: "gamma", Schema: verifField(fEnumRef)},
				{Name: "delta", Schema: verifField(fTimestamp), Required: true},
			}),
			verifOneofElement("Choice", []*schema_j5pb.ObjectProperty{{Name: "one", Schema: verifField(fObjectRef)}, {Name: "two", Schema: verifField(fAny)}}),
		)
		src.Imports = append(src.Imports, &sourcedef_j5pb.Import{Path: "third.v1", Alias: "t"}, &sourcedef_j5pb.Import{Path: "fourth/v1/f.proto"})
		return src
	}
	f1, err1 := ConvertJ5File(verifDeps{}, build())
	f2, err2 := ConvertJ5File(verifDeps{}, build())
	verifAssert((err1 == nil) == (err2 == nil), "same-verdict")
	if err1 != nil || err2 != nil {
		return
	}
	verifAssert(len(f1) == len(f2), "same-file-count")
	if len(f1) != len(f2) {
		return
	}
	for i := range f1 {
		verifAssert(verifFileEqual(f1[i], f2[i]), "same-descriptor")
	}
}

// ---------- resolver over the file's own summary (as protobuild does) ----------

type verifWarnings struct{}

func (verifWarnings) WarnPos(pos *errpos.Position, err error) {}

type verifSelfDeps struct {
	summary *FileSummary
}

func (d verifSelfDeps) ResolveType(pkg string, name string) (*TypeRef, error) {
	if d.summary != nil && pkg == d.summary.Package {
		if t, ok := d.summary.Exports[name]; ok {
			return t, nil
		}
	}
	return verifDeps{}.ResolveType(pkg, name)
}

// verifCompile: SourceSummary then ConvertJ5File, the order protobuild uses.
func verifCompile(src *sourcedef_j5pb.SourceFile) ([]*descriptorpb.FileDescriptorProto, error) {
	summary, err := SourceSummary(src, verifWarnings{})
	if err != nil {
		return nil, err
	}
	return ConvertJ5File(verifSelfDeps{summary: summary}, src)
}

func verifFindFile(files []*descriptorpb.FileDescriptorProto, name string) *descriptorpb.FileDescriptorProto {
	for _, f := range files {
		if f.GetName() == name {
			return f
		}
	}
	return nil
}

func verifFindService(fd *descriptorpb.FileDescriptorProto, name string) *descriptorpb.ServiceDescriptorProto {
	for _, s := range fd.Service {
		if s.GetName() == name {
			return s
		}
	}
	return nil
}

func verifFindMethod(s *descriptorpb.ServiceDescriptorProto, name string) *descriptorpb.MethodDescriptorProto {
	for _, m := range s.Method {
		if m.GetName() == name {
			return m
		}
	}
	return nil
}

func verifHTTP(m *descriptorpb.MethodDescriptorProto) (verb string, path string, body string) {
	rule, _ := proto.GetExtension(m.Options, annotations.E_Http).(*annotations.HttpRule)
	if rule == nil {
		return "", "", ""
	}
	switch p := rule.Pattern.(type) {
	case *annotations.HttpRule_Get:
		return "GET", p.Get, rule.Body
	case *annotations.HttpRule_Post:
		return "POST", p.Post, rule.Body
	case *annotations.HttpRule_Put:
		return "PUT", p.Put, rule.Body
	case *annotations.HttpRule_Delete:
		return "DELETE", p.Delete, rule.Body
	case *annotations.HttpRule_Patch:
		return "PATCH", p.Patch, rule.Body
	}
	return "?", "", rule.Body
}

// ---------- C02 H02c: services ----------

func HarnessConvertService() {
	verbs := []client_j5pb.HTTPMethod{client_j5pb.HTTPMethod_GET, client_j5pb.HTTPMethod_POST, client_j5pb.HTTPMethod_PUT, client_j5pb.HTTPMethod_DELETE, client_j5pb.HTTPMethod_PATCH}
	verbNames := []string{"GET", "POST", "PUT", "DELETE", "PATCH"}
	nMethods := ndIntRange("methods", 1, verifParam("M", 2))
	hasBase := ndBool("basePath")
	type spec struct {
		verb        int
		params      int
		hasResponse bool
		emptyResp   bool // the response block is declared, without properties
	}
	specs := make([]spec, nMethods)
	methods := []*sourcedef_j5pb.APIMethod{}
	for i := range specs {
		specs[i] = spec{verb: ndChoice("verb", len(verbs)), params: ndIntRange("pathParams", 0, 2), hasResponse: ndBool("response")}
		if specs[i].hasResponse {
			specs[i].emptyResp = ndBool("emptyResponseBlock")
		}
		name := []string{"GetThing", "PutOther"}[i]
		path := "things"
		reqProps := []*schema_j5pb.ObjectProperty{}
		for k := 0; k < specs[i].params; k++ {
			pn := []string{"thingId", "subKey"}[k]
			path += "/:" + pn
			reqProps = append(reqProps, &schema_j5pb.ObjectProperty{Name: pn, Schema: verifField(fKey), Required: true})
		}
		reqProps = append(reqProps, &schema_j5pb.ObjectProperty{Name: "extra", Schema: verifField(fString)})
		m := &sourcedef_j5pb.APIMethod{Name: name, HttpPath: path, HttpMethod: verbs[specs[i].verb], Request: &sourcedef_j5pb.AnonymousObject{Properties: reqProps}}
		if specs[i].hasResponse {
			m.Response = &sourcedef_j5pb.AnonymousObject{Properties: []*schema_j5pb.ObjectProperty{{Name: "result", Schema: verifField(fString)}}}
			if specs[i].emptyResp {
				m.Response = &sourcedef_j5pb.AnonymousObject{}
			}
		}
		methods = append(methods, m)
	}
	svcName := "Widget"
	svc := &sourcedef_j5pb.Service{Name: &svcName, Methods: methods}
	base := "/a/v1"
	if hasBase {
		svc.BasePath = &base
	}
	src := verifSourceFile(&sourcedef_j5pb.RootElement{Type: &sourcedef_j5pb.RootElement_Service{Service: svc}})
	files, err := verifCompile(src)
	verifAssert(err == nil, "service-accepted")
	if err != nil {
		return
	}
	fd := verifFindFile(files, "a/v1/service/x.p.j5s.proto")
	verifAssert(fd != nil, "service-file-in-service-subpackage")
	if fd == nil {
		return
	}
	verifAssert(fd.GetPackage() == "a.v1.service", "service-package")
	s := verifFindService(fd, "WidgetService")
	verifAssert(s != nil && len(fd.Service) == 1, "exactly-the-declared-service")
	if s == nil {
		return
	}
	verifAssert(len(s.Method) == nMethods, "exactly-the-declared-methods")
	for i, sp := range specs {
		name := []string{"GetThing", "PutOther"}[i]
		m := verifFindMethod(s, name)
		verifAssert(m != nil, "method-present")
		if m == nil {
			continue
		}
		verifAssert(m.GetInputType() == name+"Request", "input-is-MethodRequest")
		req := verifFindMessage(fd, name+"Request")
		verifAssert(req != nil, "request-message-emitted")
		if sp.hasResponse {
			verifAssert(m.GetOutputType() == name+"Response" && verifFindMessage(fd, name+"Response") != nil, "output-is-MethodResponse")
		} else {
			verifAssert(m.GetOutputType() == "google.api.HttpBody" && verifHasDep(fd, "google/api/httpbody.proto"), "no-response-is-HttpBody")
		}
		verb, path, body := verifHTTP(m)
		want := "things"
		if hasBase {
			want = "/a/v1/things"
		}
		for k := 0; k < sp.params; k++ {
			want += "/{" + []string{"thing_id", "sub_key"}[k] + "}"
		}
		verifAssert(verb == verbNames[sp.verb], "http-verb-as-declared")
		verifAssert(path == want, "http-path-with-snake-case-params")
		verifAssert((body == "*") == (sp.verb != 0), "body-star-unless-GET")
		verifAssert(verifHasDep(fd, "google/api/annotations.proto"), "http-annotation-imported")
		// each path parameter names a request property
		if req != nil {
			for k := 0; k < sp.params; k++ {
				found := false
				for _, f := range req.Field {
					if f.GetName() == []string{"thing_id", "sub_key"}[k] {
						found = true
					}
				}
				verifAssert(found, "path-parameter-is-a-request-field")
			}
		}
	}
}

// ---------- C02 H02c: topics ----------

func HarnessConvertTopic() {
	kind := ndChoice("topicKind", 3) // publish, reqres, upsert
	fields := []*schema_j5pb.ObjectProperty{{Name: "payload", Schema: verifField(fString)}}
	noFields := ndBool("messageWithoutFields")
	if noFields {
		fields = nil // the message still gets its implicit leading field, where the topic kind has one
	}
	var tt *sourcedef_j5pb.TopicType
	nMsgs := 1
	switch kind {
	case 0:
		nMsgs = ndIntRange("messages", 1, 2)
		msgs := []*sourcedef_j5pb.TopicMethod{}
		for i := 0; i < nMsgs; i++ {
			nm := []string{"Created", "Deleted"}[i]
			msgs = append(msgs, &sourcedef_j5pb.TopicMethod{Name: &nm, Fields: fields})
		}
		tt = &sourcedef_j5pb.TopicType{Type: &sourcedef_j5pb.TopicType_Publish_{Publish: &sourcedef_j5pb.TopicType_Publish{Messages: msgs}}}
	case 1:
		tt = &sourcedef_j5pb.TopicType{Type: &sourcedef_j5pb.TopicType_Reqres{Reqres: &sourcedef_j5pb.TopicType_ReqRes{
			Request: []*sourcedef_j5pb.TopicMethod{{Fields: fields}},
			Reply:   []*sourcedef_j5pb.TopicMethod{{Fields: fields}},
		}}}
	case 2:
		tt = &sourcedef_j5pb.TopicType{Type: &sourcedef_j5pb.TopicType_Upsert_{Upsert: &sourcedef_j5pb.TopicType_Upsert{
			EntityName: "a.v1.Thing", Message: &sourcedef_j5pb.TopicMethod{Fields: fields}}}}
	}
	src := verifSourceFile(&sourcedef_j5pb.RootElement{Type: &sourcedef_j5pb.RootElement_Topic{Topic: &sourcedef_j5pb.Topic{Name: "Widget", Type: tt}}})
	files, err := verifCompile(src)
	verifAssert(err == nil, "topic-accepted")
	if err != nil {
		return
	}
	fd := verifFindFile(files, "a/v1/topic/x.p.j5s.proto")
	verifAssert(fd != nil && fd.GetPackage() == "a.v1.topic", "topic-file-in-topic-subpackage")
	if fd == nil {
		return
	}
	checkTopic := func(svcName string, method string, message string, firstField string, role string) {
		s := verifFindService(fd, svcName)
		verifAssert(s != nil, "topic-service-named-NameTopic")
		if s == nil {
			return
		}
		m := verifFindMethod(s, method)
		verifAssert(m != nil && m.GetInputType() == message && m.GetOutputType() == ".google.protobuf.Empty", "topic-method-takes-NameMessage-returns-Empty")
		msg := verifFindMessage(fd, message)
		verifAssert(msg != nil, "topic-message-emitted")
		if msg != nil && firstField != "" && !noFields {
			verifAssert(len(msg.Field) == 2 && msg.Field[0].GetName() == firstField && msg.Field[0].GetNumber() == 1 && msg.Field[1].GetName() == "payload" && msg.Field[1].GetNumber() == 2, "implicit-leading-metadata-field-then-declared")
		}
		if msg != nil && firstField != "" && noFields {
			verifAssert(len(msg.Field) == 1 && msg.Field[0].GetName() == firstField && msg.Field[0].GetNumber() == 1, "implicit-leading-field-also-without-declared-fields")
		}
		if msg != nil && firstField == "" && !noFields {
			verifAssert(len(msg.Field) == 1 && msg.Field[0].GetNumber() == 1, "declared-fields-numbered-from-1")
		}
		if msg != nil && firstField == "" && noFields {
			verifAssert(len(msg.Field) == 0, "no-fields-declared-none-emitted")
		}
		cfg, _ := proto.GetExtension(s.Options, messaging_j5pb.E_Service).(*messaging_j5pb.ServiceConfig)
		verifAssert(cfg != nil, "messaging-annotation-present")
		if cfg != nil {
			got := ""
			switch cfg.Role.(type) {
			case *messaging_j5pb.ServiceConfig_Publish_:
				got = "publish"
			case *messaging_j5pb.ServiceConfig_Request_:
				got = "request"
			case *messaging_j5pb.ServiceConfig_Reply_:
				got = "reply"
			case *messaging_j5pb.ServiceConfig_Upsert_:
				got = "upsert"
			case *messaging_j5pb.ServiceConfig_Event_:
				got = "event"
			}
			verifAssert(got == role, "documented-messaging-role")
			verifAssert(cfg.GetTopicName() == "widget", "topic-name-snake-case")
		}
		verifAssert(verifHasDep(fd, "j5/messaging/v1/annotations.proto") && verifHasDep(fd, "google/protobuf/empty.proto"), "topic-imports")
	}
	switch kind {
	case 0:
		for i := 0; i < nMsgs; i++ {
			nm := []string{"Created", "Deleted"}[i]
			checkTopic("WidgetTopic", nm, nm+"Message", "", "publish")
		}
	case 1:
		checkTopic("WidgetRequestTopic", "WidgetRequest", "WidgetRequestMessage", "request", "request")
		checkTopic("WidgetReplyTopic", "WidgetReply", "WidgetReplyMessage", "request", "reply")
	case 2:
		checkTopic("WidgetTopic", "Widget", "WidgetMessage", "upsert", "upsert")
	}
}

// ---------- C17: entity expansion ----------

func verifPSM(msg *descriptorpb.DescriptorProto) (string, schema_j5pb.EntityPart, bool) {
	if msg == nil || msg.Options == nil {
		return "", 0, false
	}
	o, _ := proto.GetExtension(msg.Options, ext_j5pb.E_Psm).(*ext_j5pb.PSMOptions)
	if o == nil {
		return "", 0, false
	}
	return o.EntityName, o.GetEntityPart(), true
}

func verifFieldNames(msg *descriptorpb.DescriptorProto) []string {
	out := []string{}
	for _, f := range msg.Field {
		out = append(out, f.GetName())
	}
	return out
}

func verifStringsEqual(a, b []string) bool {
	if len(a) != len(b) {
		return false
	}
	for i := range a {
		if a[i] != b[i] {
			return false
		}
	}
	return true
}

func HarnessEntity() {
	// one family of the declaration varies at a time, the others stay at a
	// representative default: the space is the sum of the family spaces
	focus := ndChoice("focus", 6)
	rng := func(f int, name string, lo, hi, def int) int {
		if focus == f {
			return ndIntRange(name, lo, hi)
		}
		return def
	}
	flag := func(f int, name string, def bool) bool {
		if focus == f {
			return ndBool(name)
		}
		return def
	}
	casing := rng(0, "casing", 0, 3, 1)
	// (the last one has consecutive capitals: its camel form is not the camel of its snake form)
	entName := []string{"foo", "fooBar", "foo_bar", "APIKey"}[casing]
	camel := []string{"Foo", "FooBar", "FooBar", "Apikey"}[casing]
	snake := []string{"foo", "foo_bar", "foo_bar", "api_key"}[casing]
	screaming := []string{"FOO", "FOO_BAR", "FOO_BAR", "API_KEY"}[casing]
	// the query service and its methods are named from the snake-cased entity name
	qcamel := []string{"Foo", "FooBar", "FooBar", "ApiKey"}[casing]

	nKeys := rng(0, "keys", 1, verifParam("K", 2), 1)
	type keySpec struct{ isKeyType, primary, shard bool }
	keySpecs := make([]keySpec, nKeys)
	keys := []*sourcedef_j5pb.EntityKey{}
	keyNames := []string{"fooId", "tenantId", "third", "regionCode", "v5"}
	for i := range keySpecs {
		ks := keySpec{isKeyType: flag(0, "keyTyped", true), primary: flag(0, "primary", true), shard: flag(0, "shard", false)}
		if i == 0 {
			ks.isKeyType, ks.primary = true, true // an entity has at least one primary key
		}
		keySpecs[i] = ks
		var f *schema_j5pb.Field
		if ks.isKeyType {
			kf := &schema_j5pb.KeyField{Format: &schema_j5pb.KeyFormat{Type: &schema_j5pb.KeyFormat_Uuid{Uuid: &schema_j5pb.KeyFormat_UUID{}}}}
			if ks.primary {
				kf.Entity = &schema_j5pb.EntityKey{Type: &schema_j5pb.EntityKey_PrimaryKey{PrimaryKey: true}}
			} else if flag(0, "explicitlyNotPrimary", false) {
				// "may be explicitly false to self-document"
				kf.Entity = &schema_j5pb.EntityKey{Type: &schema_j5pb.EntityKey_PrimaryKey{PrimaryKey: false}}
			}
			f = &schema_j5pb.Field{Type: &schema_j5pb.Field_Key{Key: kf}}
		} else {
			f = verifField(fString)
		}
		keys = append(keys, &sourcedef_j5pb.EntityKey{Def: &schema_j5pb.ObjectProperty{Name: keyNames[i], Schema: f}, ShardKey: ks.shard})
	}
	nData := rng(1, "data", 0, 2, 1)
	data := []*schema_j5pb.ObjectProperty{}
	for i := 0; i < nData; i++ {
		data = append(data, &schema_j5pb.ObjectProperty{Name: []string{"name", "count"}[i], Schema: verifField([]int{fString, fInt32}[i])})
	}
	nStatus := rng(1, "statuses", 1, 3, 2)
	statusNames := []string{"ACTIVE", "INACTIVE", "GONE"} // one name is a suffix of another
	status := []*schema_j5pb.Enum_Option{}
	for i := 0; i < nStatus; i++ {
		status = append(status, &schema_j5pb.Enum_Option{Name: statusNames[i]})
	}
	nEvents := rng(2, "events", 0, 2, 1)
	eventNames := []string{"Created", "Updated"}
	events := []*sourcedef_j5pb.Object{}
	for i := 0; i < nEvents; i++ {
		events = append(events, &sourcedef_j5pb.Object{Def: &schema_j5pb.Object{Name: eventNames[i], Properties: []*schema_j5pb.ObjectProperty{{Name: "note", Schema: verifField(fString)}}}})
	}
	nCommands := rng(3, "commands", 0, 2, 0)
	commands := []*sourcedef_j5pb.Service{}
	cmdNamed := make([]bool, nCommands)
	for i := 0; i < nCommands; i++ {
		svc := &sourcedef_j5pb.Service{Methods: []*sourcedef_j5pb.APIMethod{{
			Name: []string{"DoIt", "UndoIt"}[i], HttpPath: "do", HttpMethod: client_j5pb.HTTPMethod_POST,
			Request:  &sourcedef_j5pb.AnonymousObject{Properties: []*schema_j5pb.ObjectProperty{{Name: "why", Schema: verifField(fString)}}},
			Response: &sourcedef_j5pb.AnonymousObject{},
		}}}
		cmdNamed[i] = flag(3, "commandNamed", false)
		if cmdNamed[i] {
			nm := []string{"Admin", "OpsCommand"}[i]
			svc.Name = &nm
		}
		if flag(3, "commandBasePath", false) {
			bp := "x"
			svc.BasePath = &bp
		}
		commands = append(commands, svc)
	}
	nSummaries := rng(4, "summaries", 0, 2, 0)
	summaries := []*sourcedef_j5pb.EntitySummary{}
	for i := 0; i < nSummaries; i++ {
		summaries = append(summaries, &sourcedef_j5pb.EntitySummary{Name: []string{"", "brief"}[i], Fields: []*schema_j5pb.ObjectProperty{{Name: "name", Schema: verifField(fString)}}})
	}
	ent := &sourcedef_j5pb.Entity{Name: entName, Keys: keys, Data: data, Status: status, Events: events, Commands: commands, Summaries: summaries}
	if flag(5, "query", false) {
		ent.Query = &sourcedef_j5pb.EntityQuery{EventsInGet: flag(5, "eventsInGet", false)}
		if flag(5, "defaultFilter", false) {
			// the status declared last (INACTIVE when two are declared)
			ent.Query.DefaultStatusFilter = []string{statusNames[nStatus-1]}
		}
	}
	src := verifSourceFile(&sourcedef_j5pb.RootElement{Type: &sourcedef_j5pb.RootElement_Entity{Entity: ent}})
	files, err := verifCompile(src)
	// two unnamed command services would collide; that is a declared-name clash, not part of the claim
	unnamed := 0
	for _, n := range cmdNamed {
		if !n {
			unnamed++
		}
	}
	if unnamed > 1 {
		return
	}
	verifAssert(err == nil, "entity-accepted")
	if err != nil {
		return
	}
	main := verifFindFile(files, "a/v1/x.j5s.proto")
	svcFile := verifFindFile(files, "a/v1/service/x.p.j5s.proto")
	topicFile := verifFindFile(files, "a/v1/topic/x.p.j5s.proto")
	verifAssert(main != nil && svcFile != nil && topicFile != nil, "main-service-and-topic-files-emitted")
	if main == nil || svcFile == nil || topicFile == nil {
		return
	}
	// the six schemas, named from the entity name
	mKeys, mData, mState, mEventType, mEvent := verifFindMessage(main, camel+"Keys"), verifFindMessage(main, camel+"Data"), verifFindMessage(main, camel+"State"), verifFindMessage(main, camel+"EventType"), verifFindMessage(main, camel+"Event")
	verifAssert(mKeys != nil && mData != nil && mState != nil && mEventType != nil && mEvent != nil, "keys-data-state-eventtype-event-messages")
	var eStatus *descriptorpb.EnumDescriptorProto
	for _, e := range main.EnumType {
		if e.GetName() == camel+"Status" {
			eStatus = e
		}
	}
	verifAssert(eStatus != nil, "status-enum")
	if mKeys == nil || mData == nil || mState == nil || mEventType == nil || mEvent == nil || eStatus == nil {
		return
	}
	// the same entity annotation on every part
	for _, pair := range []struct {
		m    *descriptorpb.DescriptorProto
		part schema_j5pb.EntityPart
	}{{mKeys, schema_j5pb.EntityPart_KEYS}, {mData, schema_j5pb.EntityPart_DATA}, {mState, schema_j5pb.EntityPart_STATE}, {mEvent, schema_j5pb.EntityPart_EVENT}} {
		name, part, ok := verifPSM(pair.m)
		verifAssert(ok && name == snake && part == pair.part, "psm-annotation-on-each-part")
	}
	// State and Event field lists
	verifAssert(verifStringsEqual(verifFieldNames(mState), []string{"metadata", "keys", "data", "status"}), "state-fields")
	verifAssert(verifStringsEqual(verifFieldNames(mEvent), []string{"metadata", "keys", "event"}), "event-fields")
	for i, f := range mState.Field {
		verifAssert(f.GetNumber() == int32(i+1), "state-field-numbers")
	}
	verifAssert(mState.Field[0].GetTypeName() == ".j5.state.v1.StateMetadata" && mEvent.Field[0].GetTypeName() == ".j5.state.v1.EventMetadata", "metadata-types")
	verifAssert(mState.Field[1].GetTypeName() == ".a.v1."+camel+"Keys" && mEvent.Field[1].GetTypeName() == ".a.v1."+camel+"Keys", "keys-ref")
	for _, kf := range []*descriptorpb.FieldDescriptorProto{mState.Field[1], mEvent.Field[1]} {
		fo, _ := proto.GetExtension(kf.Options, ext_j5pb.E_Field).(*ext_j5pb.FieldOptions)
		verifAssert(fo != nil && fo.GetObject() != nil && fo.GetObject().Flatten, "keys-are-flattened")
	}
	verifAssert(mState.Field[2].GetTypeName() == ".a.v1."+camel+"Data" && mState.Field[3].GetTypeName() == ".a.v1."+camel+"Status", "data-and-status-refs")
	// the default status filter of the query names exactly the declared status
	if lc, _ := proto.GetExtension(mState.Field[3].Options, list_j5pb.E_Field).(*list_j5pb.FieldConstraint); true {
		var got []string
		if lc != nil && lc.GetEnum() != nil && lc.GetEnum().Filtering != nil {
			got = lc.GetEnum().Filtering.DefaultFilters
		}
		if ent.Query != nil && len(ent.Query.DefaultStatusFilter) == 1 {
			verifAssert(len(got) == 1 && got[0] == screaming+"_STATUS_"+ent.Query.DefaultStatusFilter[0], "default-status-filter-names-the-declared-status")
		} else {
			verifAssert(len(got) == 0, "no-default-status-filter-invented")
		}
	}
	verifAssert(mEvent.Field[2].GetTypeName() == ".a.v1."+camel+"EventType", "event-oneof-ref")
	// keys / data field lists
	verifAssert(len(mKeys.Field) == nKeys && len(mData.Field) == nData, "keys-and-data-fields")
	// event oneof: exactly one option per declared event, pointing at the nested message of that name
	verifAssert(len(mEventType.Field) == nEvents && len(mEventType.NestedType) == nEvents, "one-option-and-one-nested-message-per-event")
	for i := 0; i < nEvents && i < len(mEventType.Field) && i < len(mEventType.NestedType); i++ {
		f := mEventType.Field[i]
		verifAssert(f.GetJsonName() == strcase.ToLowerCamel(eventNames[i]) && f.GetNumber() == int32(i+1) && f.OneofIndex != nil, "event-option-named-and-numbered")
		verifAssert(f.GetTypeName() == ".a.v1."+camel+"EventType."+eventNames[i], "event-option-points-at-nested-message")
		verifAssert(mEventType.NestedType[i].GetName() == eventNames[i], "nested-event-message-name")
	}
	// statuses numbered in declaration order after UNSPECIFIED
	verifAssert(len(eStatus.Value) == nStatus+1 && eStatus.Value[0].GetName() == screaming+"_STATUS_UNSPECIFIED" && eStatus.Value[0].GetNumber() == 0, "status-unspecified-zero")
	for i := 0; i < nStatus && i+1 < len(eStatus.Value); i++ {
		verifAssert(eStatus.Value[i+1].GetName() == screaming+"_STATUS_"+statusNames[i] && eStatus.Value[i+1].GetNumber() == int32(i+1), "statuses-in-declaration-order")
	}
	// primary keys are required
	for i, ks := range keySpecs {
		if ks.isKeyType && ks.primary && i < len(mKeys.Field) {
			vr, _ := proto.GetExtension(mKeys.Field[i].Options, validate.E_Field).(*validate.FieldConstraints)
			verifAssert(vr != nil && vr.GetRequired(), "primary-key-required")
		}
	}
	// query service: Get, List, Events with primary(+shard) keys as path parameters in declaration order
	q := verifFindService(svcFile, qcamel+"QueryService")
	verifAssert(q != nil, "query-service")
	if q != nil {
		get, list, evs := verifFindMethod(q, qcamel+"Get"), verifFindMethod(q, qcamel+"List"), verifFindMethod(q, qcamel+"Events")
		verifAssert(get != nil && list != nil && evs != nil && len(q.Method) == 3, "get-list-events-methods")
		wantGet := "/a/v1/" + snake + "/q"
		wantList := "/a/v1/" + snake + "/q"
		for i, ks := range keySpecs {
			sn := strcase.ToSnake(keyNames[i])
			if ks.isKeyType && (ks.primary || ks.shard) {
				wantGet += "/{" + sn + "}"
			}
			if ks.isKeyType && ks.shard {
				wantList += "/{" + sn + "}"
			}
		}
		if get != nil && list != nil && evs != nil {
			v1, p1, _ := verifHTTP(get)
			v2, p2, _ := verifHTTP(list)
			v3, p3, _ := verifHTTP(evs)
			verifAssert(v1 == "GET" && v2 == "GET" && v3 == "GET", "query-methods-are-GET")
			verifAssert(p1 == wantGet, "get-path-is-primary-keys-in-order")
			verifAssert(p3 == wantGet+"/events", "events-path-is-get-path-plus-events")
			verifAssert(p2 == wantList, "list-path-is-shard-keys")
		}
		so, _ := proto.GetExtension(q.Options, ext_j5pb.E_Service).(*ext_j5pb.ServiceOptions)
		verifAssert(so != nil && so.GetStateQuery() != nil && so.GetStateQuery().Entity == snake, "query-service-entity-annotation")
	}
	// command services
	for i := 0; i < nCommands; i++ {
		want := camel + "CommandService"
		if cmdNamed[i] {
			want = []string{"AdminCommandService", "OpsCommandService"}[i]
		}
		cs := verifFindService(svcFile, want)
		verifAssert(cs != nil, "command-service-present")
		if cs != nil {
			so, _ := proto.GetExtension(cs.Options, ext_j5pb.E_Service).(*ext_j5pb.ServiceOptions)
			verifAssert(so != nil && so.GetStateCommand() != nil && so.GetStateCommand().Entity == snake, "command-service-entity-annotation")
		}
	}
	verifAssert(len(svcFile.Service) == 1+nCommands, "exactly-query-plus-declared-command-services")
	// publish topic and one upsert topic per summary
	pub := verifFindService(topicFile, camel+"PublishTopic")
	verifAssert(pub != nil, "publish-topic")
	if pub != nil {
		cfg, _ := proto.GetExtension(pub.Options, messaging_j5pb.E_Service).(*messaging_j5pb.ServiceConfig)
		verifAssert(cfg != nil && cfg.GetEvent() != nil && cfg.GetEvent().EntityName == "a.v1."+camel, "publish-topic-entity-annotation")
	}
	for i := 0; i < nSummaries; i++ {
		want := camel + []string{"Summary", "Brief"}[i] + "Topic"
		ts := verifFindService(topicFile, want)
		verifAssert(ts != nil, "summary-upsert-topic-present")
		if ts != nil {
			cfg, _ := proto.GetExtension(ts.Options, messaging_j5pb.E_Service).(*messaging_j5pb.ServiceConfig)
			verifAssert(cfg != nil && cfg.GetUpsert() != nil && cfg.GetUpsert().EntityName == "a.v1."+camel, "summary-topic-entity-annotation")
		}
	}
	verifAssert(len(topicFile.Service) == 1+nSummaries, "exactly-publish-plus-summary-topics")
}

// ---------- C04: schema read back from the compiled descriptors equals the source ----------

func verifUniverse(files []*descriptorpb.FileDescriptorProto) *j5schema.VerifUniverse {
	u := j5schema.VerifNewUniverse(files...)
	u.StubEnums["other.v1.Colour"] = []string{"COLOUR_UNSPECIFIED", "COLOUR_RED", "COLOUR_BLUE"}
	u.StubOneofs["other.v1.ForeignOneof"] = true
	return u
}

// verifNormaliseField rewrites a *source* field into the form the compiled
// contract carries: inline object/oneof/enum become references to the nested
// type (the reader names nested types Parent_Child), references get their full
// package. Everything else — types, formats, rules, list rules, ext, flatten,
// key formats, entity keys — must come back exactly as declared.
func verifNormaliseField(f *schema_j5pb.Field, parent string, propName string) {
	nestedRef := func() *schema_j5pb.Ref {
		return &schema_j5pb.Ref{Package: "a.v1", Schema: parent + "_" + strcase.ToCamel(propName)}
	}
	switch t := f.Type.(type) {
	case *schema_j5pb.Field_Object:
		if _, inline := t.Object.Schema.(*schema_j5pb.ObjectField_Object); inline || t.Object.Schema == nil {
			t.Object.Schema = &schema_j5pb.ObjectField_Ref{Ref: nestedRef()}
		}
	case *schema_j5pb.Field_Oneof:
		if _, inline := t.Oneof.Schema.(*schema_j5pb.OneofField_Oneof); inline || t.Oneof.Schema == nil {
			t.Oneof.Schema = &schema_j5pb.OneofField_Ref{Ref: nestedRef()}
		}
	case *schema_j5pb.Field_Enum:
		if _, inline := t.Enum.Schema.(*schema_j5pb.EnumField_Enum); inline {
			t.Enum.Schema = &schema_j5pb.EnumField_Ref{Ref: nestedRef()}
		}
	case *schema_j5pb.Field_Array:
		verifNormaliseField(t.Array.Items, parent, propName)
	case *schema_j5pb.Field_Map:
		verifNormaliseField(t.Map.ItemSchema, parent, propName)
	}
}

// verifDropEmptyRules: a rules message without any rule set says the same as
// no rules message; both sides are normalised to nil before comparing.
func verifDropEmptyRules(f *schema_j5pb.Field) {
	if f == nil {
		return
	}
	switch t := f.Type.(type) {
	case *schema_j5pb.Field_String_:
		if r := t.String_.Rules; r != nil && r.MinLength == nil && r.MaxLength == nil && r.Pattern == nil {
			t.String_.Rules = nil
		}
	case *schema_j5pb.Field_Bytes:
		if r := t.Bytes.Rules; r != nil && r.MinLength == nil && r.MaxLength == nil {
			t.Bytes.Rules = nil
		}
	case *schema_j5pb.Field_Bool:
		if r := t.Bool.Rules; r != nil && r.Const == nil {
			t.Bool.Rules = nil
		}
	case *schema_j5pb.Field_Integer:
		if r := t.Integer.Rules; r != nil {
			// an explicit "exclusive: false" says the same as leaving the flag out
			if r.ExclusiveMaximum != nil && !*r.ExclusiveMaximum {
				r.ExclusiveMaximum = nil
			}
			if r.ExclusiveMinimum != nil && !*r.ExclusiveMinimum {
				r.ExclusiveMinimum = nil
			}
		}
		if r := t.Integer.Rules; r != nil && r.Minimum == nil && r.Maximum == nil && r.ExclusiveMinimum == nil && r.ExclusiveMaximum == nil && r.MultipleOf == nil {
			t.Integer.Rules = nil
		}
	case *schema_j5pb.Field_Enum:
		if r := t.Enum.Rules; r != nil && len(r.In) == 0 && len(r.NotIn) == 0 {
			t.Enum.Rules = nil
		}
	case *schema_j5pb.Field_Date:
		if r := t.Date.Rules; r != nil && r.Minimum == nil && r.Maximum == nil && r.ExclusiveMinimum == nil && r.ExclusiveMaximum == nil {
			t.Date.Rules = nil
		}
	case *schema_j5pb.Field_Decimal:
		if r := t.Decimal.Rules; r != nil && r.Minimum == nil && r.Maximum == nil && r.ExclusiveMinimum == nil && r.ExclusiveMaximum == nil {
			t.Decimal.Rules = nil
		}
	case *schema_j5pb.Field_Timestamp:
		if r := t.Timestamp.Rules; r != nil && r.Minimum == nil && r.Maximum == nil && r.ExclusiveMinimum == nil && r.ExclusiveMaximum == nil {
			t.Timestamp.Rules = nil
		}
	case *schema_j5pb.Field_Object:
		if r := t.Object.Rules; r != nil && r.MinProperties == nil && r.MaxProperties == nil {
			t.Object.Rules = nil
		}
	case *schema_j5pb.Field_Oneof:
		if t.Oneof.Rules != nil {
			t.Oneof.Rules = nil // the message has no fields
		}
	case *schema_j5pb.Field_Array:
		if r := t.Array.Rules; r != nil && r.MinItems == nil && r.MaxItems == nil && r.UniqueItems == nil {
			t.Array.Rules = nil
		}
		verifDropEmptyRules(t.Array.Items)
	case *schema_j5pb.Field_Map:
		verifDropEmptyRules(t.Map.ItemSchema)
	}
}

func HarnessSchemaReadBack() {
	kind := ndChoice("kind", fKinds)
	if only := verifParam("kind", -1); only >= 0 && only != kind {
		return
	}
	tag := ":" + verifFieldName[kind]
	card := ndChoice("cardinality", 3)
	withRules := verifParam("rules", 1) == 1
	required, optional := ndBool("required"), false
	if !required && card == 0 { // proto3 'optional' does not exist for repeated and map fields
		optional = ndBool("optional")
	}
	described := ndBool("description")
	// build the same declaration twice: one copy is compiled (conversion mutates
	// its input), the other is the expectation
	var fields [2]*schema_j5pb.Field
	var arrRules [2]*schema_j5pb.ArrayField_Rules
	var choices struct {
		rules, list bool
	}
	_ = choices
	verifNoFlatten = card != 0
	for k := 0; k < 2; k++ {
		if k == 1 {
			verifReplayDraws()
		} else {
			verifRecordDraws()
		}
		var f *schema_j5pb.Field
		if withRules {
			f = verifRuled(kind)
		} else {
			f = verifField(kind)
		}
		switch card {
		case 1:
			arr := &schema_j5pb.ArrayField{Items: f}
			if withRules && verifDrawBool("arrayRules") {
				arr.Rules = &schema_j5pb.ArrayField_Rules{MinItems: verifDrawU64Ptr("minItems"), MaxItems: verifDrawU64Ptr("maxItems"), UniqueItems: verifDrawBoolPtr("unique")}
			}
			arrRules[k] = arr.Rules
			f = &schema_j5pb.Field{Type: &schema_j5pb.Field_Array{Array: arr}}
		case 2:
			f = &schema_j5pb.Field{Type: &schema_j5pb.Field_Map{Map: &schema_j5pb.MapField{ItemSchema: f}}}
		}
		fields[k] = f
	}
	mkProp := func(f *schema_j5pb.Field) *schema_j5pb.ObjectProperty {
		p := &schema_j5pb.ObjectProperty{Name: "theField", Schema: f, Required: required, ExplicitlyOptional: optional}
		if described {
			p.Description = "what it is"
		}
		return p
	}
	src := verifSourceFile(verifObjectElement("Thing", []*schema_j5pb.ObjectProperty{mkProp(fields[0])}))
	files, err := verifCompile(src)
	if err != nil {
		verifReach("not-compilable" + tag)
		return // acceptance of the language is C07's subject
	}
	u := verifUniverse(files)
	msg := u.Message("a.v1.Thing")
	verifAssert(msg != nil, "compiled-message-present")
	if msg == nil {
		return
	}
	cache := j5schema.NewSchemaCache()
	root, rerr := cache.Schema(msg)
	verifAssert(rerr == nil, "compiled-schema-reflects"+tag)
	if rerr != nil {
		return
	}
	got := root.ToJ5Root().GetObject()
	verifAssert(got != nil && got.Name == "Thing" && len(got.Properties) == 1, "object-with-its-property"+tag)
	if got == nil || len(got.Properties) != 1 {
		return
	}
	want := mkProp(fields[1])
	verifNormaliseField(want.Schema, "Thing", "theField")
	want.ProtoField = []int32{1}
	if k := want.Schema.GetKey(); k != nil && k.Entity != nil && k.Entity.GetPrimaryKey() {
		want.Required = true // documented: primary keys are always required
	}
	// recorded findings (only honoured while listed as open in known_findings.json)
	verifKnownClass("c04-map-value-annotations", card == 2)
	verifKnownClass("c04-key-format-not-carried", kind == fKey)
	verifKnownClass("c04-array-item-ext-overwritten", card == 1 && (kind == fKey || kind == fDate || kind == fDecimal || kind == fAny))
	// representation-only differences: the key schema of a compiled map is
	// always "string" (not declared in the source), and an array/map ext
	// without any value is the same as no ext
	if gm, wm := got.Properties[0].Schema.GetMap(), want.Schema.GetMap(); gm != nil && wm != nil {
		wm.KeySchema = gm.KeySchema
		if gm.Ext != nil && gm.Ext.SingleForm == nil && wm.Ext == nil {
			gm.Ext = nil
		}
	}
	if ga, wa := got.Properties[0].Schema.GetArray(), want.Schema.GetArray(); ga != nil && wa != nil {
		if ga.Ext != nil && ga.Ext.SingleForm == nil && wa.Ext == nil {
			ga.Ext = nil
		}
		if wa.Ext != nil && wa.Ext.SingleForm == nil && ga.Ext == nil {
			wa.Ext = nil
		}
	}
	verifDropEmptyRules(got.Properties[0].Schema)
	verifDropEmptyRules(want.Schema)
	verifAssertDeepEqual(got.Properties[0], want, "read-back-property-equals-source"+tag)
}

// ---- recorded draws: build the same symbolic structure twice from one set of choices ----

var verifDraws struct {
	replay bool
	pos    int
	bools  []bool
	u64s   []uint64
	i64s   []int64
	ints   []int
}

func verifRecordDraws() {
	verifDraws.replay, verifDraws.pos = false, 0
	verifDraws.bools, verifDraws.u64s, verifDraws.i64s, verifDraws.ints = nil, nil, nil, nil
}
func verifReplayDraws() { verifDraws.replay, verifDraws.pos = true, 0 }

// verifFixedDraws: 0 = symbolic draws, 1 = every optional part absent, 2 = every optional part present
var verifFixedDraws int

func verifDrawBool(name string) bool {
	if verifFixedDraws == 1 {
		return false
	}
	if verifFixedDraws == 2 {
		return true
	}
	if verifDraws.replay {
		v := verifDraws.bools[0]
		verifDraws.bools = verifDraws.bools[1:]
		return v
	}
	v := ndBool(name)
	verifDraws.bools = append(verifDraws.bools, v)
	return v
}
func verifDrawU64(name string) uint64 {
	if verifFixedDraws != 0 {
		return 3
	}
	if verifDraws.replay {
		v := verifDraws.u64s[0]
		verifDraws.u64s = verifDraws.u64s[1:]
		return v
	}
	v := ndUint64(name)
	verifDraws.u64s = append(verifDraws.u64s, v)
	return v
}
func verifDrawI64(name string) int64 {
	if verifFixedDraws != 0 {
		return 7
	}
	if verifDraws.replay {
		v := verifDraws.i64s[0]
		verifDraws.i64s = verifDraws.i64s[1:]
		return v
	}
	v := ndInt64(name)
	verifDraws.i64s = append(verifDraws.i64s, v)
	return v
}
func verifDrawChoice(name string, n int) int {
	if verifFixedDraws == 1 {
		return 0
	}
	if verifFixedDraws == 2 {
		return n - 1
	}
	if verifDraws.replay {
		v := verifDraws.ints[0]
		verifDraws.ints = verifDraws.ints[1:]
		return v
	}
	v := ndChoice(name, n)
	verifDraws.ints = append(verifDraws.ints, v)
	return v
}
func verifDrawBoolPtr(name string) *bool {
	switch verifDrawChoice(name, 3) {
	case 1:
		f := false
		return &f
	case 2:
		t := true
		return &t
	}
	return nil
}
func verifDrawU64Ptr(name string) *uint64 {
	if verifDrawBool(name + "Set") {
		v := verifDrawU64(name)
		return &v
	}
	return nil
}

// ---------- C15: schema sets survive export to the source-API form and re-import ----------

func verifExportAll(pkgs map[string]*j5schema.Package) []*source_j5pb.Package {
	// deterministic order for the harness: the fixed package names it uses
	out := []*source_j5pb.Package{}
	for _, name := range []string{"a.v1", "other.v1"} {
		pkg, ok := pkgs[name]
		if !ok {
			continue
		}
		sp := &source_j5pb.Package{Name: name, Schemas: map[string]*schema_j5pb.RootSchema{}}
		for sname, ref := range pkg.Schemas {
			if ref.To == nil {
				verifFail("unlinked-ref-after-reflection")
			}
			sp.Schemas[sname] = ref.To.ToJ5Root()
		}
		out = append(out, sp)
	}
	return out
}

func HarnessExportImport() {
	kind := ndChoice("kind", fKinds)
	if only := verifParam("kind", -1); only >= 0 && only != kind {
		return
	}
	tag := ":" + verifFieldName[kind]
	card := ndChoice("cardinality", 3)
	verifNoFlatten = card != 0
	verifFixedDraws = verifParam("draws", 0)
	if verifFixedDraws != 0 {
		verifFixedDraws = 1 + ndChoice("optionalParts", 2)
	}
	verifRecordDraws()
	f := verifRuled(kind)
	switch card {
	case 1:
		arr := &schema_j5pb.ArrayField{Items: f}
		if verifDrawBool("arrayRules") {
			arr.Rules = &schema_j5pb.ArrayField_Rules{MinItems: verifDrawU64Ptr("minItems"), UniqueItems: verifDrawBoolPtr("unique")}
		}
		f = &schema_j5pb.Field{Type: &schema_j5pb.Field_Array{Array: arr}}
	case 2:
		f = &schema_j5pb.Field{Type: &schema_j5pb.Field_Map{Map: &schema_j5pb.MapField{ItemSchema: f}}}
	}
	withInfo, withOptionInfo := ndBool("enumInfo"), ndBool("enumOptionInfo")
	enum := &schema_j5pb.Enum{Name: "Kind", Description: "the kinds", Options: []*schema_j5pb.Enum_Option{{Name: "ONE", Description: "first"}, {Name: "TWO"}}}
	if withInfo {
		enum.Info = []*schema_j5pb.Enum_OptionInfoField{{Name: "colour", Label: "Colour", Description: "of it"}}
	}
	if withOptionInfo {
		// option info is not tied to declared info fields, neither in j5s nor in proto
		enum.Options[0].Info = map[string]string{"colour": "red"}
	}
	thing := &schema_j5pb.Object{Name: "Thing", Description: "a thing", Properties: []*schema_j5pb.ObjectProperty{
		{Name: "theField", Schema: f, Required: ndBool("required"), Description: "the field"},
		{Name: "kind", Schema: &schema_j5pb.Field{Type: &schema_j5pb.Field_Enum{Enum: &schema_j5pb.EnumField{Schema: &schema_j5pb.EnumField_Ref{Ref: &schema_j5pb.Ref{Schema: "Kind"}},
			ListRules: &list_j5pb.EnumRules{Filtering: &list_j5pb.FilteringConstraint{Filterable: true}}}}}},
		{Name: "self", Schema: &schema_j5pb.Field{Type: &schema_j5pb.Field_Array{Array: &schema_j5pb.ArrayField{Items: &schema_j5pb.Field{Type: &schema_j5pb.Field_Object{Object: &schema_j5pb.ObjectField{
			Schema: &schema_j5pb.ObjectField_Ref{Ref: &schema_j5pb.Ref{Schema: "Thing"}}}}}}}}},
	}}
	if ndBool("entity") {
		thing.Entity = &schema_j5pb.EntityObject{Entity: "thing", Part: schema_j5pb.EntityPart_DATA}
	}
	if ndBool("anyMember") {
		thing.AnyMember = []string{"things"}
	}
	src := verifSourceFile(
		&sourcedef_j5pb.RootElement{Type: &sourcedef_j5pb.RootElement_Object{Object: &sourcedef_j5pb.Object{Def: thing}}},
		&sourcedef_j5pb.RootElement{Type: &sourcedef_j5pb.RootElement_Enum{Enum: enum}},
	)
	verifFixedDraws = 0
	files, err := verifCompile(src)
	if err != nil {
		verifReach("not-compilable" + tag)
		return
	}
	u := verifUniverse(files)
	cache := j5schema.NewSchemaCache()
	if _, rerr := cache.Schema(u.Message("a.v1.Thing")); rerr != nil {
		verifReach("not-reflectable" + tag)
		return
	}
	// X := export(reflect(descriptors))
	x := verifExportAll(j5schema.VerifCachePackages(cache))
	// import
	set, ierr := j5schema.PackageSetFromSourceAPI(x)
	verifAssert(ierr == nil, "import-succeeds-with-every-ref-resolved"+tag)
	if ierr != nil {
		return
	}
	// export again and compare, schema by schema
	for _, sp := range x {
		pkg := set.Packages[sp.Name]
		verifAssert(pkg != nil && len(pkg.Schemas) == len(sp.Schemas), "same-schemas-per-package")
		if pkg == nil {
			continue
		}
		for name, want := range sp.Schemas {
			ref := pkg.Schemas[name]
			verifAssert(ref != nil && ref.To != nil, "schema-present-and-linked")
			if ref == nil || ref.To == nil {
				continue
			}
			verifAssertDeepEqual(ref.To.ToJ5Root(), want, "export-of-import-equals-export:"+name+tag)
		}
	}
}

// ---------- C02: declared names, for symbolic names ----------

// One property whose name is drawn symbolically (lower-case first letter, then
// letters and digits incl. runs of capitals): JSON name is the declared name,
// proto name is its snake_case form.
func HarnessFieldNames() {
	n := ndIntRange("len", 1, verifParam("L", 4))
	b := make([]byte, n)
	for i := range b {
		c := ndByte("c")
		if i == 0 {
			verifAssume(c >= 'a')
			verifAssume(c <= 'z')
		} else {
			verifAssume(verifAny(verifAll(c >= 'a', c <= 'z'), verifAll(c >= 'A', c <= 'Z'), verifAll(c >= '0', c <= '9')))
		}
		b[i] = c
	}
	name := string(b)
	inOneof := ndBool("inOneof")
	props := []*schema_j5pb.ObjectProperty{{Name: name, Schema: verifField(fString)}}
	var src *sourcedef_j5pb.SourceFile
	if inOneof {
		src = verifSourceFile(verifOneofElement("Thing", props))
	} else {
		src = verifSourceFile(verifObjectElement("Thing", props))
	}
	files, err := ConvertJ5File(verifDeps{}, src)
	verifAssert(err == nil && len(files) == 1, "accepted")
	if err != nil || len(files) != 1 {
		return
	}
	msg := verifFindMessage(files[0], "Thing")
	verifAssert(msg != nil && len(msg.Field) == 1, "one-field")
	if msg == nil || len(msg.Field) != 1 {
		return
	}
	f := msg.Field[0]
	verifAssert(f.GetJsonName() == name, "json-name-is-the-declared-name")
	verifAssert(f.GetName() == strcase.ToSnake(name), "proto-name-is-snake-case-of-the-declared-name")
}
