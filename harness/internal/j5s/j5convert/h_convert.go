package j5convert

import (
	"buf.build/gen/go/bufbuild/protovalidate/protocolbuffers/go/buf/validate"
	"github.com/iancoleman/strcase"
	"github.com/pentops/j5/gen/j5/ext/v1/ext_j5pb"
	"github.com/pentops/j5/gen/j5/list/v1/list_j5pb"
	"github.com/pentops/j5/gen/j5/schema/v1/schema_j5pb"
	"github.com/pentops/j5/gen/j5/sourcedef/v1/sourcedef_j5pb"
	"google.golang.org/protobuf/proto"
	"google.golang.org/protobuf/types/descriptorpb"
)

// ---------- environment: a resolver for the references the generators use ----------

type verifDeps struct{}

func (verifDeps) ResolveType(pkg string, name string) (*TypeRef, error) {
	switch {
	case pkg == "other.v1" && name == "Foreign":
		return &TypeRef{Package: pkg, Name: name, File: "other/v1/foreign.proto", MessageRef: &MessageRef{}}, nil
	case pkg == "other.v1" && name == "ForeignOneof":
		return &TypeRef{Package: pkg, Name: name, File: "other/v1/foreign.proto", MessageRef: &MessageRef{Oneof: true}}, nil
	case pkg == "other.v1" && name == "Colour":
		return &TypeRef{Package: pkg, Name: name, File: "other/v1/colour.proto", EnumRef: &EnumRef{Prefix: "COLOUR_", ValMap: map[string]int32{"COLOUR_UNSPECIFIED": 0, "COLOUR_RED": 1, "COLOUR_BLUE": 2}}}, nil
	case pkg == "a.v1" && name == "Local":
		return &TypeRef{Package: pkg, Name: name, File: "a/v1/local.j5s.proto", MessageRef: &MessageRef{}}, nil
	}
	return nil, &TypeNotFoundError{Package: pkg, Name: name}
}

func verifBoolPtr(name string) *bool {
	switch ndChoice(name, 3) {
	case 1:
		f := false
		return &f
	case 2:
		t := true
		return &t
	}
	return nil
}

func verifU64Ptr(name string) *uint64 {
	if ndBool(name + "Set") {
		v := ndUint64(name)
		return &v
	}
	return nil
}

// ---------- field generator ----------

const (
	fString = iota
	fBool
	fInt32
	fInt64
	fUint32
	fUint64
	fFloat32
	fFloat64
	fBytes
	fDate
	fDecimal
	fTimestamp
	fKey
	fAny
	fObjectRef
	fObjectInline
	fOneofRef
	fOneofInline
	fEnumRef
	fEnumInline
	fKinds
)

var verifFieldName = []string{"string", "bool", "int32", "int64", "uint32", "uint64", "float32", "float64", "bytes", "date", "decimal",
	"timestamp", "key", "any", "object-ref", "object-inline", "oneof-ref", "oneof-inline", "enum-ref", "enum-inline"}

func verifIntFormat(kind int) schema_j5pb.IntegerField_Format {
	switch kind {
	case fInt32:
		return schema_j5pb.IntegerField_FORMAT_INT32
	case fInt64:
		return schema_j5pb.IntegerField_FORMAT_INT64
	case fUint32:
		return schema_j5pb.IntegerField_FORMAT_UINT32
	}
	return schema_j5pb.IntegerField_FORMAT_UINT64
}

// verifField builds a field of the given kind without rules.
func verifField(kind int) *schema_j5pb.Field {
	switch kind {
	case fString:
		return &schema_j5pb.Field{Type: &schema_j5pb.Field_String_{String_: &schema_j5pb.StringField{}}}
	case fBool:
		return &schema_j5pb.Field{Type: &schema_j5pb.Field_Bool{Bool: &schema_j5pb.BoolField{}}}
	case fInt32, fInt64, fUint32, fUint64:
		return &schema_j5pb.Field{Type: &schema_j5pb.Field_Integer{Integer: &schema_j5pb.IntegerField{Format: verifIntFormat(kind)}}}
	case fFloat32:
		return &schema_j5pb.Field{Type: &schema_j5pb.Field_Float{Float: &schema_j5pb.FloatField{Format: schema_j5pb.FloatField_FORMAT_FLOAT32}}}
	case fFloat64:
		return &schema_j5pb.Field{Type: &schema_j5pb.Field_Float{Float: &schema_j5pb.FloatField{Format: schema_j5pb.FloatField_FORMAT_FLOAT64}}}
	case fBytes:
		return &schema_j5pb.Field{Type: &schema_j5pb.Field_Bytes{Bytes: &schema_j5pb.BytesField{}}}
	case fDate:
		return &schema_j5pb.Field{Type: &schema_j5pb.Field_Date{Date: &schema_j5pb.DateField{}}}
	case fDecimal:
		return &schema_j5pb.Field{Type: &schema_j5pb.Field_Decimal{Decimal: &schema_j5pb.DecimalField{}}}
	case fTimestamp:
		return &schema_j5pb.Field{Type: &schema_j5pb.Field_Timestamp{Timestamp: &schema_j5pb.TimestampField{}}}
	case fKey:
		return &schema_j5pb.Field{Type: &schema_j5pb.Field_Key{Key: &schema_j5pb.KeyField{}}}
	case fAny:
		return &schema_j5pb.Field{Type: &schema_j5pb.Field_Any{Any: &schema_j5pb.AnyField{}}}
	case fObjectRef:
		return &schema_j5pb.Field{Type: &schema_j5pb.Field_Object{Object: &schema_j5pb.ObjectField{Schema: &schema_j5pb.ObjectField_Ref{Ref: &schema_j5pb.Ref{Package: "other.v1", Schema: "Foreign"}}}}}
	case fObjectInline:
		return &schema_j5pb.Field{Type: &schema_j5pb.Field_Object{Object: &schema_j5pb.ObjectField{Schema: &schema_j5pb.ObjectField_Object{Object: &schema_j5pb.Object{
			Properties: []*schema_j5pb.ObjectProperty{{Name: "inner", Schema: verifField(fString)}},
		}}}}}
	case fOneofRef:
		return &schema_j5pb.Field{Type: &schema_j5pb.Field_Oneof{Oneof: &schema_j5pb.OneofField{Schema: &schema_j5pb.OneofField_Ref{Ref: &schema_j5pb.Ref{Package: "other.v1", Schema: "ForeignOneof"}}}}}
	case fOneofInline:
		return &schema_j5pb.Field{Type: &schema_j5pb.Field_Oneof{Oneof: &schema_j5pb.OneofField{Schema: &schema_j5pb.OneofField_Oneof{Oneof: &schema_j5pb.Oneof{
			Properties: []*schema_j5pb.ObjectProperty{{Name: "optA", Schema: verifField(fString)}, {Name: "optB", Schema: verifField(fInt32)}},
		}}}}}
	case fEnumRef:
		return &schema_j5pb.Field{Type: &schema_j5pb.Field_Enum{Enum: &schema_j5pb.EnumField{Schema: &schema_j5pb.EnumField_Ref{Ref: &schema_j5pb.Ref{Package: "other.v1", Schema: "Colour"}}}}}
	case fEnumInline:
		return &schema_j5pb.Field{Type: &schema_j5pb.Field_Enum{Enum: &schema_j5pb.EnumField{Schema: &schema_j5pb.EnumField_Enum{Enum: &schema_j5pb.Enum{
			Options: []*schema_j5pb.Enum_Option{{Name: "ON"}, {Name: "OFF"}},
		}}}}}
	}
	return nil
}

// expected proto type / type name of a field kind, written from the README table
func verifExpectType(kind int, parent string, propName string) (descriptorpb.FieldDescriptorProto_Type, string) {
	T := func(t descriptorpb.FieldDescriptorProto_Type) (descriptorpb.FieldDescriptorProto_Type, string) {
		return t, ""
	}
	// inline types are referenced by their package-relative name
	nested := parent + "." + strcase.ToCamel(propName)
	switch kind {
	case fString, fKey:
		return T(descriptorpb.FieldDescriptorProto_TYPE_STRING)
	case fBool:
		return T(descriptorpb.FieldDescriptorProto_TYPE_BOOL)
	case fInt32:
		return T(descriptorpb.FieldDescriptorProto_TYPE_INT32)
	case fInt64:
		return T(descriptorpb.FieldDescriptorProto_TYPE_INT64)
	case fUint32:
		return T(descriptorpb.FieldDescriptorProto_TYPE_UINT32)
	case fUint64:
		return T(descriptorpb.FieldDescriptorProto_TYPE_UINT64)
	case fFloat32:
		return T(descriptorpb.FieldDescriptorProto_TYPE_FLOAT)
	case fFloat64:
		return T(descriptorpb.FieldDescriptorProto_TYPE_DOUBLE)
	case fBytes:
		return T(descriptorpb.FieldDescriptorProto_TYPE_BYTES)
	case fDate:
		return descriptorpb.FieldDescriptorProto_TYPE_MESSAGE, ".j5.types.date.v1.Date"
	case fDecimal:
		return descriptorpb.FieldDescriptorProto_TYPE_MESSAGE, ".j5.types.decimal.v1.Decimal"
	case fTimestamp:
		return descriptorpb.FieldDescriptorProto_TYPE_MESSAGE, ".google.protobuf.Timestamp"
	case fAny:
		return descriptorpb.FieldDescriptorProto_TYPE_MESSAGE, ".j5.types.any.v1.Any"
	case fObjectRef:
		return descriptorpb.FieldDescriptorProto_TYPE_MESSAGE, ".other.v1.Foreign"
	case fOneofRef:
		return descriptorpb.FieldDescriptorProto_TYPE_MESSAGE, ".other.v1.ForeignOneof"
	case fEnumRef:
		return descriptorpb.FieldDescriptorProto_TYPE_ENUM, ".other.v1.Colour"
	case fObjectInline, fOneofInline:
		return descriptorpb.FieldDescriptorProto_TYPE_MESSAGE, nested
	case fEnumInline:
		return descriptorpb.FieldDescriptorProto_TYPE_ENUM, nested
	}
	return 0, "?"
}

// the file that defines a well-known / referenced type name
func verifTypeFile(typeName string) string {
	switch typeName {
	case ".j5.types.date.v1.Date":
		return "j5/types/date/v1/date.proto"
	case ".j5.types.decimal.v1.Decimal":
		return "j5/types/decimal/v1/decimal.proto"
	case ".google.protobuf.Timestamp":
		return "google/protobuf/timestamp.proto"
	case ".j5.types.any.v1.Any":
		return "j5/types/any/v1/any.proto"
	case ".other.v1.Foreign", ".other.v1.ForeignOneof":
		return "other/v1/foreign.proto"
	case ".other.v1.Colour":
		return "other/v1/colour.proto"
	}
	return ""
}

func verifHasDep(fd *descriptorpb.FileDescriptorProto, dep string) bool {
	for _, d := range fd.Dependency {
		if d == dep {
			return true
		}
	}
	return false
}

func verifSourceFile(elements ...*sourcedef_j5pb.RootElement) *sourcedef_j5pb.SourceFile {
	return &sourcedef_j5pb.SourceFile{
		Path:     "a/v1/x.j5s",
		Package:  &sourcedef_j5pb.Package{Name: "a.v1"},
		Imports:  []*sourcedef_j5pb.Import{{Path: "other.v1"}},
		Elements: elements,
	}
}

func verifObjectElement(name string, props []*schema_j5pb.ObjectProperty) *sourcedef_j5pb.RootElement {
	return &sourcedef_j5pb.RootElement{Type: &sourcedef_j5pb.RootElement_Object{Object: &sourcedef_j5pb.Object{
		Def: &schema_j5pb.Object{Name: name, Properties: props},
	}}}
}

func verifOneofElement(name string, props []*schema_j5pb.ObjectProperty) *sourcedef_j5pb.RootElement {
	return &sourcedef_j5pb.RootElement{Type: &sourcedef_j5pb.RootElement_Oneof{Oneof: &sourcedef_j5pb.Oneof{
		Def: &schema_j5pb.Oneof{Name: name, Properties: props},
	}}}
}

var verifPropNames = []string{"alpha", "betaGamma", "d", "eE", "fooBarBaz", "g1", "hH", "iota"}

func verifFindMessage(fd *descriptorpb.FileDescriptorProto, name string) *descriptorpb.DescriptorProto {
	for _, m := range fd.MessageType {
		if m.GetName() == name {
			return m
		}
	}
	return nil
}

// ---------- C02 H02a: fields of an object / oneof ----------

// verifCheckFields asserts the contract of every field of msg against props.
func verifCheckFields(fd *descriptorpb.FileDescriptorProto, msg *descriptorpb.DescriptorProto, parent string, props []*schema_j5pb.ObjectProperty, kinds []int, card []int, inOneof bool) {
	verifAssert(len(msg.Field) == len(props), "field-count")
	if len(msg.Field) != len(props) {
		return
	}
	for i, f := range msg.Field {
		p := props[i]
		tag := ":" + verifFieldName[kinds[i]]
		verifAssert(f.GetNumber() == int32(i+1), "number-is-position")
		verifAssert(f.GetName() == strcase.ToSnake(p.Name), "proto-name-is-snake-case")
		verifAssert(f.GetJsonName() == p.Name, "json-name-is-declared-name")
		wantType, wantTypeName := verifExpectType(kinds[i], parent, p.Name)
		switch card[i] {
		case 0: // singular
			verifAssert(f.GetType() == wantType && f.GetTypeName() == wantTypeName, "type"+tag)
			verifAssert(f.GetLabel() != descriptorpb.FieldDescriptorProto_LABEL_REPEATED, "singular-label"+tag)
		case 1: // array
			verifAssert(f.GetType() == wantType && f.GetTypeName() == wantTypeName, "array-item-type"+tag)
			verifAssert(f.GetLabel() == descriptorpb.FieldDescriptorProto_LABEL_REPEATED, "array-is-repeated"+tag)
		case 2: // map<string, kind>
			entry := strcase.ToCamel(strcase.ToSnake(p.Name)) + "Entry"
			verifAssert(f.GetType() == descriptorpb.FieldDescriptorProto_TYPE_MESSAGE && f.GetLabel() == descriptorpb.FieldDescriptorProto_LABEL_REPEATED, "map-is-repeated-entry"+tag)
			var em *descriptorpb.DescriptorProto
			for _, n := range msg.NestedType {
				if n.GetName() == f.GetTypeName() {
					em = n
				}
			}
			verifAssert(em != nil && f.GetTypeName() == entry, "map-entry-message-exists"+tag)
			if em != nil {
				verifAssert(em.GetOptions().GetMapEntry() && len(em.Field) == 2 &&
					em.Field[0].GetName() == "key" && em.Field[0].GetNumber() == 1 && em.Field[0].GetType() == descriptorpb.FieldDescriptorProto_TYPE_STRING &&
					em.Field[1].GetName() == "value" && em.Field[1].GetNumber() == 2 && em.Field[1].GetType() == wantType && em.Field[1].GetTypeName() == wantTypeName,
					"map-entry-shape"+tag)
			}
		}
		verifAssert(f.GetProto3Optional() == p.ExplicitlyOptional, "proto3-optional-iff-declared")
		if inOneof {
			verifAssert(f.OneofIndex != nil && f.GetOneofIndex() == 0, "oneof-member-index")
		} else {
			verifAssert(f.OneofIndex == nil, "object-field-not-in-oneof")
		}
		// required -> (buf.validate.field).required
		vr := proto.GetExtension(f.Options, validate.E_Field).(*validate.FieldConstraints)
		verifAssert((vr != nil && vr.GetRequired()) == p.Required, "required-iff-declared")
		// every referenced well-known / foreign type is imported
		if file := verifTypeFile(wantTypeName); file != "" {
			verifAssert(verifHasDep(fd, file), "type-import-present"+tag)
		}
	}
}

func HarnessConvertFields() {
	inOneof := ndBool("inOneof")
	n := ndIntRange("nprops", 1, verifParam("P", 3))
	focus := ndIntRange("focus", 0, n-1)
	props := make([]*schema_j5pb.ObjectProperty, n)
	kinds := make([]int, n)
	card := make([]int, n)
	for i := 0; i < n; i++ {
		kinds[i] = fString
		if i == focus {
			kinds[i] = ndChoice("kind", fKinds)
			if !inOneof { // proto oneofs cannot hold repeated or map fields
				card[i] = ndChoice("cardinality", 3)
			}
		}
		f := verifField(kinds[i])
		switch card[i] {
		case 1:
			f = &schema_j5pb.Field{Type: &schema_j5pb.Field_Array{Array: &schema_j5pb.ArrayField{Items: f}}}
		case 2:
			f = &schema_j5pb.Field{Type: &schema_j5pb.Field_Map{Map: &schema_j5pb.MapField{ItemSchema: f}}}
		}
		props[i] = &schema_j5pb.ObjectProperty{Name: verifPropNames[i], Schema: f}
		if i == focus {
			props[i].Required = ndBool("required")
			props[i].ExplicitlyOptional = ndBool("optional")
		}
	}
	var src *sourcedef_j5pb.SourceFile
	if inOneof {
		src = verifSourceFile(verifOneofElement("Thing", props))
	} else {
		src = verifSourceFile(verifObjectElement("Thing", props))
	}
	files, err := ConvertJ5File(verifDeps{}, src)
	if props[focus].Required && props[focus].ExplicitlyOptional {
		verifAssert(err != nil, "required-and-optional-rejected")
		return
	}
	verifAssert(err == nil, "valid-source-accepted:"+verifFieldName[kinds[focus]])
	if err != nil {
		return
	}
	verifAssert(len(files) == 1, "one-file")
	if len(files) != 1 {
		return
	}
	fd := files[0]
	verifAssert(fd.GetName() == "a/v1/x.j5s.proto" && fd.GetPackage() == "a.v1", "file-name-and-package")
	msg := verifFindMessage(fd, "Thing")
	verifAssert(msg != nil && len(fd.MessageType) == 1 && len(fd.EnumType) == 0, "exactly-the-declared-message")
	if msg == nil {
		return
	}
	verifCheckFields(fd, msg, "Thing", props, kinds, card, inOneof)
	// inline types are nested in the parent under CamelCase(field); nothing else is nested
	wantNestedMsgs, wantNestedEnums := 0, 0
	k := kinds[focus]
	if k == fObjectInline || k == fOneofInline {
		wantNestedMsgs++
	}
	if k == fEnumInline {
		wantNestedEnums++
	}
	if card[focus] == 2 {
		wantNestedMsgs++
	}
	verifAssert(len(msg.NestedType) == wantNestedMsgs && len(msg.EnumType) == wantNestedEnums, "nested-types-exactly-the-inline-ones")
	if k == fObjectInline || k == fOneofInline {
		found := false
		for _, nm := range msg.NestedType {
			if nm.GetName() == strcase.ToCamel(props[focus].Name) {
				found = true
			}
		}
		verifAssert(found, "inline-type-named-after-field")
	}
	if k == fEnumInline && len(msg.EnumType) == 1 {
		e := msg.EnumType[0]
		verifAssert(e.GetName() == strcase.ToCamel(props[focus].Name), "inline-enum-named-after-field")
	}
}

// numbering only: many properties, nothing else symbolic
func HarnessFieldNumbering() {
	n := ndIntRange("nprops", 0, verifParam("P", 6))
	props := make([]*schema_j5pb.ObjectProperty, n)
	kinds := make([]int, n)
	card := make([]int, n)
	for i := range props {
		props[i] = &schema_j5pb.ObjectProperty{Name: verifPropNames[i], Schema: verifField(fString)}
	}
	inOneof := ndBool("inOneof")
	var src *sourcedef_j5pb.SourceFile
	if inOneof {
		src = verifSourceFile(verifOneofElement("Thing", props))
	} else {
		src = verifSourceFile(verifObjectElement("Thing", props))
	}
	files, err := ConvertJ5File(verifDeps{}, src)
	verifAssert(err == nil && len(files) == 1, "accepted")
	if err != nil || len(files) != 1 {
		return
	}
	msg := verifFindMessage(files[0], "Thing")
	verifAssert(msg != nil, "message-exists")
	if msg != nil {
		verifCheckFields(files[0], msg, "Thing", props, kinds, card, inOneof)
	}
}

// ---------- C02 H02b: enums ----------

func HarnessConvertEnum() {
	names := []string{"ALPHA", "BETA", "GAMMA_DELTA", "E"}
	k := ndIntRange("options", 0, verifParam("K", 4))
	prefixMode := ndChoice("prefix", 3) // omitted, given, given-and-options-carry-it
	leadUnspecified := ndBool("leadingUnspecified")
	enumName := "ShirtSize"
	defaultPrefix := "SHIRT_SIZE_"
	prefix := ""
	if prefixMode > 0 {
		prefix = "SZ_"
	}
	eff := prefix
	if eff == "" {
		eff = defaultPrefix
	}
	var opts []*schema_j5pb.Enum_Option
	if leadUnspecified {
		opts = append(opts, &schema_j5pb.Enum_Option{Name: eff + "UNSPECIFIED", Number: 0})
	}
	for i := 0; i < k; i++ {
		nm := names[i]
		if prefixMode == 2 {
			nm = eff + nm
		}
		opts = append(opts, &schema_j5pb.Enum_Option{Name: nm, Number: int32(i + 1)})
	}
	src := verifSourceFile(&sourcedef_j5pb.RootElement{Type: &sourcedef_j5pb.RootElement_Enum{Enum: &schema_j5pb.Enum{
		Name: enumName, Prefix: prefix, Options: opts,
	}}})
	files, err := ConvertJ5File(verifDeps{}, src)
	verifAssert(err == nil && len(files) == 1, "accepted")
	if err != nil || len(files) != 1 {
		return
	}
	fd := files[0]
	verifAssert(len(fd.EnumType) == 1 && len(fd.MessageType) == 0, "exactly-the-declared-enum")
	if len(fd.EnumType) != 1 {
		return
	}
	e := fd.EnumType[0]
	verifAssert(e.GetName() == enumName, "enum-name")
	verifAssert(len(e.Value) == k+1, "value-count-is-options-plus-unspecified")
	if len(e.Value) != k+1 {
		return
	}
	verifAssert(e.Value[0].GetNumber() == 0 && e.Value[0].GetName() == eff+"UNSPECIFIED", "zero-value-is-PREFIX_UNSPECIFIED")
	for i := 0; i < k; i++ {
		v := e.Value[i+1]
		verifAssert(v.GetNumber() == int32(i+1), "option-number-is-position")
		verifAssert(v.GetName() == eff+names[i], "option-name-prefixed-once")
	}
}

// ---------- C07 H07b: one field, nothing else in the file: imports are complete ----------

// verifRuled builds a field of `kind` carrying its rules / list rules / ext
// according to the symbolic flags.
func verifRuled(kind int) *schema_j5pb.Field {
	f := verifField(kind)
	rules, list := ndBool("rules"), ndBool("listRules")
	switch t := f.Type.(type) {
	case *schema_j5pb.Field_String_:
		if rules {
			t.String_.Rules = &schema_j5pb.StringField_Rules{MinLength: verifU64Ptr("minLen"), MaxLength: verifU64Ptr("maxLen")}
		}
		if list {
			t.String_.ListRules = &list_j5pb.OpenTextRules{}
		}
	case *schema_j5pb.Field_Bool:
		if rules {
			t.Bool.Rules = &schema_j5pb.BoolField_Rules{Const: verifBoolPtr("const")}
		}
		if list {
			t.Bool.ListRules = &list_j5pb.BoolRules{}
		}
	case *schema_j5pb.Field_Integer:
		if rules {
			t.Integer.Rules = &schema_j5pb.IntegerField_Rules{}
			if ndBool("hasMax") {
				v := ndInt64("max")
				t.Integer.Rules.Maximum = &v
				t.Integer.Rules.ExclusiveMaximum = verifBoolPtr("exMax")
			}
		}
		if list {
			t.Integer.ListRules = &list_j5pb.IntegerRules{}
		}
	case *schema_j5pb.Field_Float:
		if list {
			t.Float.ListRules = &list_j5pb.FloatRules{}
		}
	case *schema_j5pb.Field_Bytes:
		if rules {
			t.Bytes.Rules = &schema_j5pb.BytesField_Rules{MinLength: verifU64Ptr("minLen"), MaxLength: verifU64Ptr("maxLen")}
		}
	case *schema_j5pb.Field_Date:
		if rules {
			t.Date.Rules = &schema_j5pb.DateField_Rules{}
		}
		if list {
			t.Date.ListRules = &list_j5pb.DateRules{}
		}
	case *schema_j5pb.Field_Decimal:
		if rules {
			t.Decimal.Rules = &schema_j5pb.DecimalField_Rules{}
		}
		if list {
			t.Decimal.ListRules = &list_j5pb.DecimalRules{}
		}
	case *schema_j5pb.Field_Timestamp:
		if rules {
			t.Timestamp.Rules = &schema_j5pb.TimestampField_Rules{}
		}
	case *schema_j5pb.Field_Key:
		switch ndChoice("keyFormat", 5) {
		case 1:
			t.Key.Format = &schema_j5pb.KeyFormat{Type: &schema_j5pb.KeyFormat_Uuid{Uuid: &schema_j5pb.KeyFormat_UUID{}}}
		case 2:
			t.Key.Format = &schema_j5pb.KeyFormat{Type: &schema_j5pb.KeyFormat_Id62{Id62: &schema_j5pb.KeyFormat_ID62{}}}
		case 3:
			t.Key.Format = &schema_j5pb.KeyFormat{Type: &schema_j5pb.KeyFormat_Custom_{Custom: &schema_j5pb.KeyFormat_Custom{Pattern: "^x+$"}}}
		case 4:
			t.Key.Format = &schema_j5pb.KeyFormat{Type: &schema_j5pb.KeyFormat_Informal_{Informal: &schema_j5pb.KeyFormat_Informal{}}}
		}
		if rules {
			t.Key.Entity = &schema_j5pb.EntityKey{Type: &schema_j5pb.EntityKey_PrimaryKey{PrimaryKey: ndBool("primary")}}
		}
		if list {
			t.Key.ListRules = &list_j5pb.KeyRules{}
		}
	case *schema_j5pb.Field_Object:
		if rules {
			t.Object.Rules = &schema_j5pb.ObjectField_Rules{}
		}
		t.Object.Flatten = ndBool("flatten")
	case *schema_j5pb.Field_Oneof:
		if rules {
			t.Oneof.Rules = &schema_j5pb.OneofField_Rules{}
		}
		if list {
			t.Oneof.ListRules = &list_j5pb.OneofRules{}
		}
	case *schema_j5pb.Field_Enum:
		if rules {
			t.Enum.Rules = &schema_j5pb.EnumField_Rules{}
		}
		if list {
			t.Enum.ListRules = &list_j5pb.EnumRules{}
		}
	}
	return f
}

// verifCheckImports: every extension set on a field's options and every
// referenced type has its defining file among the file's dependencies
// (otherwise the link step fails on a file that contains nothing else).
func verifCheckImports(fd *descriptorpb.FileDescriptorProto, msg *descriptorpb.DescriptorProto, tag string) {
	for _, f := range msg.Field {
		if f.Options != nil {
			if proto.HasExtension(f.Options, validate.E_Field) {
				verifAssert(verifHasDep(fd, "buf/validate/validate.proto"), "validate-extension-imported"+tag)
			}
			if proto.HasExtension(f.Options, ext_j5pb.E_Field) || proto.HasExtension(f.Options, ext_j5pb.E_Key) {
				verifAssert(verifHasDep(fd, "j5/ext/v1/annotations.proto"), "j5-ext-extension-imported"+tag)
			}
			if proto.HasExtension(f.Options, list_j5pb.E_Field) {
				verifAssert(verifHasDep(fd, "j5/list/v1/annotations.proto"), "j5-list-extension-imported"+tag)
			}
		}
		if file := verifTypeFile(f.GetTypeName()); file != "" {
			verifAssert(verifHasDep(fd, file), "type-imported"+tag)
		}
	}
	if msg.Options != nil && (proto.HasExtension(msg.Options, ext_j5pb.E_Message) || proto.HasExtension(msg.Options, ext_j5pb.E_Psm)) {
		verifAssert(verifHasDep(fd, "j5/ext/v1/annotations.proto"), "message-extension-imported"+tag)
	}
	for _, n := range msg.NestedType {
		verifCheckImports(fd, n, tag)
	}
}

func HarnessFieldFeatureIsolation() {
	kind := ndChoice("kind", fKinds)
	if only := verifParam("kind", -1); only >= 0 && only != kind {
		return
	}
	tag := ":" + verifFieldName[kind]
	f := verifRuled(kind)
	card := ndChoice("cardinality", 3)
	switch card {
	case 1:
		arr := &schema_j5pb.ArrayField{Items: f}
		if ndBool("arrayRules") {
			arr.Rules = &schema_j5pb.ArrayField_Rules{MinItems: verifU64Ptr("minItems"), MaxItems: verifU64Ptr("maxItems"), UniqueItems: verifBoolPtr("unique")}
		}
		if ndBool("arrayExt") {
			sf := "item"
			arr.Ext = &schema_j5pb.ArrayField_Ext{}
			if ndBool("singleForm") {
				arr.Ext.SingleForm = &sf
			}
		}
		f = &schema_j5pb.Field{Type: &schema_j5pb.Field_Array{Array: arr}}
	case 2:
		f = &schema_j5pb.Field{Type: &schema_j5pb.Field_Map{Map: &schema_j5pb.MapField{ItemSchema: f}}}
	}
	prop := &schema_j5pb.ObjectProperty{Name: "theField", Schema: f, Required: ndBool("required")}
	src := verifSourceFile(verifObjectElement("Thing", []*schema_j5pb.ObjectProperty{prop}))
	files, err := ConvertJ5File(verifDeps{}, src)
	// everything drawn above is inside the documented language: it must be accepted
	verifAssert(err == nil, "documented-language-accepted"+tag)
	if err != nil || len(files) != 1 {
		return
	}
	msg := verifFindMessage(files[0], "Thing")
	if msg == nil {
		return
	}
	verifCheckImports(files[0], msg, tag)
}

// ---------- C07 H07a: semantic faults are reported, not crashed on ----------

func HarnessSemanticFaults() {
	fault := ndChoice("fault", 9)
	props := []*schema_j5pb.ObjectProperty{{Name: "ok", Schema: verifField(fString)}}
	var elements []*sourcedef_j5pb.RootElement
	switch fault {
	case 0: // unknown type
		props = append(props, &schema_j5pb.ObjectProperty{Name: "bad", Schema: &schema_j5pb.Field{Type: &schema_j5pb.Field_Object{Object: &schema_j5pb.ObjectField{
			Schema: &schema_j5pb.ObjectField_Ref{Ref: &schema_j5pb.Ref{Package: "nope.v1", Schema: "Missing"}}}}}})
	case 1: // required and optional
		props = append(props, &schema_j5pb.ObjectProperty{Name: "bad", Schema: verifField(fString), Required: true, ExplicitlyOptional: true})
	case 2: // nil schema
		props = append(props, &schema_j5pb.ObjectProperty{Name: "bad"})
	case 3: // nil array items
		props = append(props, &schema_j5pb.ObjectProperty{Name: "bad", Schema: &schema_j5pb.Field{Type: &schema_j5pb.Field_Array{Array: &schema_j5pb.ArrayField{}}}})
	case 4: // nil map item schema
		props = append(props, &schema_j5pb.ObjectProperty{Name: "bad", Schema: &schema_j5pb.Field{Type: &schema_j5pb.Field_Map{Map: &schema_j5pb.MapField{}}}})
	case 5: // enum ref to a message
		props = append(props, &schema_j5pb.ObjectProperty{Name: "bad", Schema: &schema_j5pb.Field{Type: &schema_j5pb.Field_Enum{Enum: &schema_j5pb.EnumField{
			Schema: &schema_j5pb.EnumField_Ref{Ref: &schema_j5pb.Ref{Package: "other.v1", Schema: "Foreign"}}}}}})
	case 6: // object ref to an enum
		props = append(props, &schema_j5pb.ObjectProperty{Name: "bad", Schema: &schema_j5pb.Field{Type: &schema_j5pb.Field_Object{Object: &schema_j5pb.ObjectField{
			Schema: &schema_j5pb.ObjectField_Ref{Ref: &schema_j5pb.Ref{Package: "other.v1", Schema: "Colour"}}}}}})
	case 7: // a top-level oneof without a name
		elements = append(elements, verifOneofElement("", []*schema_j5pb.ObjectProperty{{Name: "x", Schema: verifField(fString)}}))
	case 8: // unspecified float / integer format
		if ndBool("float") {
			props = append(props, &schema_j5pb.ObjectProperty{Name: "bad", Schema: &schema_j5pb.Field{Type: &schema_j5pb.Field_Float{Float: &schema_j5pb.FloatField{}}}})
		} else {
			props = append(props, &schema_j5pb.ObjectProperty{Name: "bad", Schema: &schema_j5pb.Field{Type: &schema_j5pb.Field_Integer{Integer: &schema_j5pb.IntegerField{}}}})
		}
	}
	elements = append(elements, verifObjectElement("Thing", props))
	files, err := ConvertJ5File(verifDeps{}, verifSourceFile(elements...))
	verifAssert((err != nil) != (len(files) > 0), "descriptors-xor-error")
	verifAssert(err != nil, "semantic-fault-reported")
}

// ---------- C12 H12a: integer bounds ----------

func verifAcceptsInt(r *validate.FieldConstraints, kind int, v int64) bool {
	if r == nil {
		return true
	}
	ok := true
	switch kind {
	case fInt32:
		x := r.GetInt32()
		if x == nil {
			return true
		}
		v32 := int32(v)
		switch lt := x.LessThan.(type) {
		case *validate.Int32Rules_Lt:
			ok = verifAll(ok, v32 < lt.Lt)
		case *validate.Int32Rules_Lte:
			ok = verifAll(ok, v32 <= lt.Lte)
		}
		switch gt := x.GreaterThan.(type) {
		case *validate.Int32Rules_Gt:
			ok = verifAll(ok, v32 > gt.Gt)
		case *validate.Int32Rules_Gte:
			ok = verifAll(ok, v32 >= gt.Gte)
		}
	case fInt64:
		x := r.GetInt64()
		if x == nil {
			return true
		}
		switch lt := x.LessThan.(type) {
		case *validate.Int64Rules_Lt:
			ok = verifAll(ok, v < lt.Lt)
		case *validate.Int64Rules_Lte:
			ok = verifAll(ok, v <= lt.Lte)
		}
		switch gt := x.GreaterThan.(type) {
		case *validate.Int64Rules_Gt:
			ok = verifAll(ok, v > gt.Gt)
		case *validate.Int64Rules_Gte:
			ok = verifAll(ok, v >= gt.Gte)
		}
	case fUint32:
		x := r.GetUint32()
		if x == nil {
			return true
		}
		u := uint32(v)
		switch lt := x.LessThan.(type) {
		case *validate.UInt32Rules_Lt:
			ok = verifAll(ok, u < lt.Lt)
		case *validate.UInt32Rules_Lte:
			ok = verifAll(ok, u <= lt.Lte)
		}
		switch gt := x.GreaterThan.(type) {
		case *validate.UInt32Rules_Gt:
			ok = verifAll(ok, u > gt.Gt)
		case *validate.UInt32Rules_Gte:
			ok = verifAll(ok, u >= gt.Gte)
		}
	case fUint64:
		x := r.GetUint64()
		if x == nil {
			return true
		}
		u := uint64(v)
		switch lt := x.LessThan.(type) {
		case *validate.UInt64Rules_Lt:
			ok = verifAll(ok, u < lt.Lt)
		case *validate.UInt64Rules_Lte:
			ok = verifAll(ok, u <= lt.Lte)
		}
		switch gt := x.GreaterThan.(type) {
		case *validate.UInt64Rules_Gt:
			ok = verifAll(ok, u > gt.Gt)
		case *validate.UInt64Rules_Gte:
			ok = verifAll(ok, u >= gt.Gte)
		}
	}
	return ok
}

func HarnessIntegerBounds() {
	kind := fInt32 + ndChoice("format", 4)
	tag := ":" + verifFieldName[kind]
	rules := &schema_j5pb.IntegerField_Rules{}
	hasMin, hasMax := ndBool("hasMin"), ndBool("hasMax")
	var min, max int64
	// the declared bounds are admissible for the format: inside its value range, min <= max
	lo, hi := int64(-1<<63), int64(1<<63-1)
	switch kind {
	case fInt32:
		lo, hi = -1<<31, 1<<31-1
	case fUint32:
		lo, hi = 0, 1<<32-1
	case fUint64:
		lo = 0
	}
	if hasMin {
		min = ndInt64("min")
		verifAssume(min >= lo)
		verifAssume(min <= hi)
		rules.Minimum = &min
		rules.ExclusiveMinimum = verifBoolPtr("exMin")
	}
	if hasMax {
		max = ndInt64("max")
		verifAssume(max >= lo)
		verifAssume(max <= hi)
		rules.Maximum = &max
		rules.ExclusiveMaximum = verifBoolPtr("exMax")
	}
	if hasMin && hasMax {
		verifAssume(min < max)
	}
	field := &schema_j5pb.Field{Type: &schema_j5pb.Field_Integer{Integer: &schema_j5pb.IntegerField{Format: verifIntFormat(kind), Rules: rules}}}
	src := verifSourceFile(verifObjectElement("Thing", []*schema_j5pb.ObjectProperty{{Name: "n", Schema: field}}))
	files, err := ConvertJ5File(verifDeps{}, src)
	verifAssert(err == nil && len(files) == 1, "admissible-rules-accepted"+tag)
	if err != nil || len(files) != 1 {
		return
	}
	msg := verifFindMessage(files[0], "Thing")
	if msg == nil || len(msg.Field) != 1 {
		verifFail("field-missing")
		return
	}
	ext := proto.GetExtension(msg.Field[0].Options, validate.E_Field).(*validate.FieldConstraints)
	// candidate value of the field's type
	v := ndInt64("v")
	verifAssume(v >= lo)
	verifAssume(v <= hi)
	want := true
	if hasMin {
		if rules.ExclusiveMinimum != nil && *rules.ExclusiveMinimum {
			want = verifAll(want, v > min)
		} else {
			want = verifAll(want, v >= min)
		}
	}
	if hasMax {
		if rules.ExclusiveMaximum != nil && *rules.ExclusiveMaximum {
			want = verifAll(want, v < max)
		} else {
			want = verifAll(want, v <= max)
		}
	}
	verifAssert(verifAcceptsInt(ext, kind, v) == want, "accepts-iff-declared-bounds"+tag)
}
