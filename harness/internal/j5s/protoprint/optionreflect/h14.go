package optionreflect

import (
	"github.com/pentops/j5/lib/j5schema"
	"google.golang.org/protobuf/proto"
	"google.golang.org/protobuf/reflect/protoreflect"
	"google.golang.org/protobuf/types/descriptorpb"
)

// C14: option values that are maps (e.g. (j5.ext.v1.enum_value).info) are
// rendered entry by entry from protoreflect.Map.Range, whose order protobuf-go
// leaves unspecified (it ranges over a Go map). The same map is walked under
// two arbitrary visiting orders; the rendered option tree must be the same.

var verifPerms3 = [][]int{{0, 1, 2}, {0, 2, 1}, {1, 0, 2}, {1, 2, 0}, {2, 0, 1}, {2, 1, 0}}

func verifPerm(name string, n int) []int {
	switch n {
	case 0:
		return []int{}
	case 1:
		return []int{0}
	case 2:
		return [][]int{{0, 1}, {1, 0}}[ndChoice(name, 2)]
	}
	return verifPerms3[ndChoice(name, 6)]
}

func HarnessOptionMapOrder() {
	str := descriptorpb.FieldDescriptorProto_TYPE_STRING.Enum()
	opt := descriptorpb.FieldDescriptorProto_LABEL_OPTIONAL.Enum()
	fdp := &descriptorpb.FileDescriptorProto{Name: proto.String("x/v1/x.proto"), Package: proto.String("x.v1"), Syntax: proto.String("proto3"),
		MessageType: []*descriptorpb.DescriptorProto{{Name: proto.String("Opts"),
			NestedType: []*descriptorpb.DescriptorProto{{Name: proto.String("InfoEntry"), Options: &descriptorpb.MessageOptions{MapEntry: proto.Bool(true)},
				Field: []*descriptorpb.FieldDescriptorProto{
					{Name: proto.String("key"), Number: proto.Int32(1), Type: str, Label: opt},
					{Name: proto.String("value"), Number: proto.Int32(2), Type: str, Label: opt}}}},
			Field: []*descriptorpb.FieldDescriptorProto{{Name: proto.String("info"), Number: proto.Int32(1), JsonName: proto.String("info"),
				Type: descriptorpb.FieldDescriptorProto_TYPE_MESSAGE.Enum(), TypeName: proto.String(".x.v1.Opts.InfoEntry"), Label: descriptorpb.FieldDescriptorProto_LABEL_REPEATED.Enum()}}}}}
	u := j5schema.VerifNewUniverse(fdp)
	fd := u.Message("x.v1.Opts").Fields().ByName("info")
	n := ndIntRange("entries", 0, verifParam("N", 3))
	// keys: a fixed stem and one symbolic letter each (distinct keys, which may
	// differ only in case)
	keys := []string{"colour", "size", "a"}
	for i := 0; i < n; i++ {
		c := ndByte("keyLetter")
		verifAssume(verifAny(verifAll(c >= 'A', c <= 'Z'), verifAll(c >= 'a', c <= 'z')))
		keys[i] = "k" + string([]byte{c})
		for j := 0; j < i; j++ {
			verifAssume(keys[i] != keys[j])
		}
	}
	build := func(order []int) protoreflect.Map {
		m := j5schema.VerifNewDynMap(fd)
		for i := 0; i < n; i++ {
			m.Set(protoreflect.ValueOfString(keys[i]).MapKey(), protoreflect.ValueOfString([]string{"red", "x", ""}[i]))
		}
		m.VerifOrder = order
		return m
	}
	first := WalkOptionField(fd, protoreflect.ValueOfMap(build(verifPerm("order1", n))))
	second := WalkOptionField(fd, protoreflect.ValueOfMap(build(verifPerm("order2", n))))
	verifAssertDeepEqual(first, second, "map-option-rendering-independent-of-range-order")
	verifAssert(len(first.Children) == n, "one-child-per-entry")
}
