package optionreflect

// H05a: option string values are rendered as proto text-format string
// literals; a reference unescaper written from the language specification
// (\n \r \t \" \\ \xHH \uHHHH \UHHHHHHHH) must give back the original bytes
// (the UTF-8 encoding of the escaped code points), and the literal must not
// contain a raw quote, newline or non-ASCII byte.

func refHexVal(c byte) (uint32, bool) {
	switch {
	case c >= '0' && c <= '9':
		return uint32(c - '0'), true
	case c >= 'a' && c <= 'f':
		return uint32(c-'a') + 10, true
	case c >= 'A' && c <= 'F':
		return uint32(c-'A') + 10, true
	}
	return 0, false
}

func refUTF8(r uint32) []byte {
	switch {
	case r < 0x80:
		return []byte{byte(r)}
	case r < 0x800:
		return []byte{byte(0xC0 | r>>6), byte(0x80 | r&0x3F)}
	case r < 0x10000:
		return []byte{byte(0xE0 | r>>12), byte(0x80 | (r>>6)&0x3F), byte(0x80 | r&0x3F)}
	}
	return []byte{byte(0xF0 | r>>18), byte(0x80 | (r>>12)&0x3F), byte(0x80 | (r>>6)&0x3F), byte(0x80 | r&0x3F)}
}

func refUnescape(lit []byte) ([]byte, bool) {
	if len(lit) < 2 || lit[0] != '"' || lit[len(lit)-1] != '"' {
		return nil, false
	}
	b := lit[1 : len(lit)-1]
	out := []byte{}
	i := 0
	for i < len(b) {
		c := b[i]
		if c == '"' || c == '\n' || c >= 0x80 {
			return nil, false
		}
		if c != '\\' {
			out = append(out, c)
			i++
			continue
		}
		if i+1 >= len(b) {
			return nil, false
		}
		digits := 0
		switch b[i+1] {
		case 'n':
			out = append(out, '\n')
		case 'r':
			out = append(out, '\r')
		case 't':
			out = append(out, '\t')
		case '"', '\\', '\'':
			out = append(out, b[i+1])
		case 'x':
			// \x takes one or two hex digits
			if i+2 >= len(b) {
				return nil, false
			}
			v, ok := refHexVal(b[i+2])
			if !ok {
				return nil, false
			}
			n := 3
			if i+3 < len(b) {
				if v2, ok2 := refHexVal(b[i+3]); ok2 {
					v = v<<4 | v2
					n = 4
				}
			}
			out = append(out, byte(v))
			i += n
			continue
		case 'u':
			digits = 4
		case 'U':
			digits = 8
		default:
			return nil, false
		}
		if digits > 0 {
			if i+1+digits >= len(b)+0 && i+2+digits > len(b) {
				return nil, false
			}
			var v uint32
			for k := 0; k < digits; k++ {
				if i+2+k >= len(b) {
					return nil, false
				}
				h, ok := refHexVal(b[i+2+k])
				if !ok {
					return nil, false
				}
				v = v<<4 | h
			}
			out = append(out, refUTF8(v)...)
			i += 2 + digits
			continue
		}
		i += 2
	}
	return out, true
}

func refValidUTF8(b []byte) bool {
	i := 0
	for i < len(b) {
		c := b[i]
		switch {
		case c < 0x80:
			i++
		case c >= 0xC2 && c <= 0xDF:
			if i+1 >= len(b) || b[i+1]&0xC0 != 0x80 {
				return false
			}
			i += 2
		case c >= 0xE0 && c <= 0xEF:
			if i+2 >= len(b) {
				return false
			}
			lo, hi := byte(0x80), byte(0xBF)
			if c == 0xE0 {
				lo = 0xA0
			}
			if c == 0xED {
				hi = 0x9F
			}
			if b[i+1] < lo || b[i+1] > hi || b[i+2]&0xC0 != 0x80 {
				return false
			}
			i += 3
		case c >= 0xF0 && c <= 0xF4:
			if i+3 >= len(b) {
				return false
			}
			lo, hi := byte(0x80), byte(0xBF)
			if c == 0xF0 {
				lo = 0x90
			}
			if c == 0xF4 {
				hi = 0x8F
			}
			if b[i+1] < lo || b[i+1] > hi || b[i+2]&0xC0 != 0x80 || b[i+3]&0xC0 != 0x80 {
				return false
			}
			i += 4
		default:
			return false
		}
	}
	return true
}

func HarnessPrototextString() {
	n := ndIntRange("n", 0, verifParam("S", 3))
	in := make([]byte, n)
	for i := range in {
		in[i] = ndByte("b")
	}
	// option strings are proto strings: valid UTF-8
	if !refValidUTF8(in) {
		verifReach("not-a-proto-string")
		out := prototextString(string(in))
		verifAssert(len(out) >= 2, "bytes-still-rendered")
		return
	}
	out := prototextString(string(in))
	dec, ok := refUnescape([]byte(out))
	verifAssert(ok, "literal-is-well-formed-proto-text")
	if ok {
		verifAssert(string(dec) == string(in), "literal-unescapes-to-the-value")
	}
}
