package protoprint

import (
	"github.com/pentops/j5/lib/j5schema"
	"google.golang.org/protobuf/proto"
	"google.golang.org/protobuf/types/descriptorpb"
)

// H05b: the printer shortens a type name relative to the referencing scope;
// resolving the printed name from that scope by the protobuf scoping rule
// (first component searched innermost scope first, then the rest inside it)
// must give back the referenced element. The descriptor tree is drawn
// symbolically over a tiny alphabet (A, B, C) so that same-named types at different
// nesting levels (shadowing) occur.
func verifDrawTree(prefix string, depth int, budget *int) []*descriptorpb.DescriptorProto {
	out := []*descriptorpb.DescriptorProto{}
	n := ndIntRange("children", 0, 2)
	used := map[string]bool{}
	for i := 0; i < n && *budget > 0; i++ {
		name := []string{"A", "B", "C"}[ndChoice("name", verifParam("names", 3))]
		if used[name] {
			continue // sibling names are unique in a valid file
		}
		used[name] = true
		*budget--
		m := &descriptorpb.DescriptorProto{Name: proto.String(name)}
		if depth > 0 {
			m.NestedType = verifDrawTree(prefix+"."+name, depth-1, budget)
		}
		out = append(out, m)
	}
	return out
}

func HarnessRelativeTypeNames() {
	budget := verifParam("M", 5)
	msgs := verifDrawTree("p.v1", verifParam("depth", 2), &budget)
	fdp := &descriptorpb.FileDescriptorProto{Name: proto.String("p/v1/x.proto"), Package: proto.String("p.v1"), Syntax: proto.String("proto3"), MessageType: msgs}
	u := j5schema.VerifNewUniverse(fdp)
	all := u.VerifAllMessages()
	if len(all) < 1 {
		return
	}
	from := all[ndChoice("from", len(all))]
	to := all[ndChoice("to", len(all))]
	printed, err := contextRefName(from, to)
	verifAssert(err == nil, "name-computed")
	if err != nil {
		return
	}
	verifAssert(printed != "", "printed-name-not-empty")
	got, _ := u.VerifResolveFrom(printed, from)
	verifAssert(got == to, "printed-name-resolves-to-the-referenced-type")
}
