package protoprint

import (
	"buf.build/gen/go/bufbuild/protovalidate/protocolbuffers/go/buf/validate"
	"github.com/pentops/j5/gen/j5/ext/v1/ext_j5pb"
	"github.com/pentops/j5/gen/j5/list/v1/list_j5pb"
	"github.com/pentops/j5/internal/j5s/protoprint/optionreflect"
	"github.com/pentops/j5/lib/j5schema"
	"google.golang.org/protobuf/proto"
	"google.golang.org/protobuf/reflect/protodesc"
	"google.golang.org/protobuf/reflect/protoreflect"
	"google.golang.org/protobuf/reflect/protoregistry"
	"google.golang.org/protobuf/types/descriptorpb"
)

// C14 (printing half): the whole printer (printFile, printSection,
// printElements, printMessage/Enum/Oneof/Service/Method/Field/Extension,
// comments, element ordering) on a file drawn by choices and viewed through
// fakedesc. The same descriptor is printed twice in one run; every `range`
// over a Go map inside the printer takes an arbitrary order each time
// (engine.maporder), so text that depends on map iteration differs between the
// two prints for some order. Options are left out here (OptionsFor is cut to
// "no options"; their rendering is checked by HarnessOptionMapOrder and
// HarnessPrototextString).

func verifNoOptions(b *optionreflect.Builder, parent protoreflect.Descriptor) ([]*optionreflect.OptionDefinition, error) {
	return nil, nil
}

var verifExtendees = []string{".google.protobuf.MessageOptions", ".google.protobuf.FieldOptions", ".google.protobuf.EnumOptions"}

func verifPrintableFile() *descriptorpb.FileDescriptorProto {
	str := descriptorpb.FieldDescriptorProto_TYPE_STRING.Enum()
	i32 := descriptorpb.FieldDescriptorProto_TYPE_INT32.Enum()
	msgT := descriptorpb.FieldDescriptorProto_TYPE_MESSAGE.Enum()
	enumT := descriptorpb.FieldDescriptorProto_TYPE_ENUM.Enum()
	opt := descriptorpb.FieldDescriptorProto_LABEL_OPTIONAL.Enum()
	rep := descriptorpb.FieldDescriptorProto_LABEL_REPEATED.Enum()
	fdp := &descriptorpb.FileDescriptorProto{Name: proto.String("p/v1/x.proto"), Package: proto.String("p.v1"), Syntax: proto.String("proto3")}
	for i := 0; i < ndIntRange("imports", 0, 2); i++ {
		fdp.Dependency = append(fdp.Dependency, []string{"z/last.proto", "a/first.proto"}[i])
	}
	// file-level extensions: 0..X fields, each extending one of three messages
	nx := ndIntRange("extensions", 0, verifParam("X", 3))
	if nx > 0 {
		fdp.Dependency = append(fdp.Dependency, "google/protobuf/descriptor.proto")
	}
	for i := 0; i < nx; i++ {
		fdp.Extension = append(fdp.Extension, &descriptorpb.FieldDescriptorProto{
			Name: proto.String([]string{"first", "second", "third", "fourth"}[i]), Number: proto.Int32(int32(50000 + i)), Type: str, Label: opt,
			Extendee: proto.String(verifExtendees[ndChoice("extendee", len(verifExtendees))])})
	}
	nested := &descriptorpb.DescriptorProto{Name: proto.String("N"), Field: []*descriptorpb.FieldDescriptorProto{{Name: proto.String("v"), Number: proto.Int32(1), Type: str, Label: opt}}}
	inner := &descriptorpb.EnumDescriptorProto{Name: proto.String("K"), Value: []*descriptorpb.EnumValueDescriptorProto{{Name: proto.String("K_UNSPECIFIED"), Number: proto.Int32(0)}, {Name: proto.String("K_ONE"), Number: proto.Int32(1)}}}
	m := &descriptorpb.DescriptorProto{Name: proto.String("M"),
		Field: []*descriptorpb.FieldDescriptorProto{
			{Name: proto.String("a"), Number: proto.Int32(1), Type: str, Label: opt},
			{Name: proto.String("r"), Number: proto.Int32(2), Type: i32, Label: rep},
			{Name: proto.String("n"), Number: proto.Int32(3), Type: msgT, TypeName: proto.String(".p.v1.M.N"), Label: opt},
			{Name: proto.String("k"), Number: proto.Int32(4), Type: enumT, TypeName: proto.String(".p.v1.M.K"), Label: opt},
			{Name: proto.String("x"), Number: proto.Int32(5), Type: str, Label: opt, OneofIndex: proto.Int32(0)},
			{Name: proto.String("y"), Number: proto.Int32(6), Type: msgT, TypeName: proto.String(".p.v1.Other"), Label: opt, OneofIndex: proto.Int32(0)},
			{Name: proto.String("o"), Number: proto.Int32(7), Type: str, Label: opt, Proto3Optional: proto.Bool(true), OneofIndex: proto.Int32(1)},
		},
		OneofDecl:  []*descriptorpb.OneofDescriptorProto{{Name: proto.String("choice")}, {Name: proto.String("_o")}},
		NestedType: []*descriptorpb.DescriptorProto{nested},
		EnumType:   []*descriptorpb.EnumDescriptorProto{inner},
	}
	other := &descriptorpb.DescriptorProto{Name: proto.String("Other"), Field: []*descriptorpb.FieldDescriptorProto{
		{Name: proto.String("back"), Number: proto.Int32(1), Type: msgT, TypeName: proto.String(".p.v1.M"), Label: opt}}}
	fdp.MessageType = []*descriptorpb.DescriptorProto{m, other}
	fdp.EnumType = []*descriptorpb.EnumDescriptorProto{{Name: proto.String("Top"), Value: []*descriptorpb.EnumValueDescriptorProto{{Name: proto.String("TOP_UNSPECIFIED"), Number: proto.Int32(0)}}}}
	if ndBool("service") {
		fdp.Service = []*descriptorpb.ServiceDescriptorProto{{Name: proto.String("Svc"), Method: []*descriptorpb.MethodDescriptorProto{
			{Name: proto.String("Do"), InputType: proto.String(".p.v1.M"), OutputType: proto.String(".p.v1.Other")}}}}
	}
	// source info: comments and line numbers on some elements (which decide the
	// element order), present or not
	if ndBool("sourceInfo") {
		loc := func(path []int32, line int32, lead, trail string) *descriptorpb.SourceCodeInfo_Location {
			l := &descriptorpb.SourceCodeInfo_Location{Path: path, Span: []int32{line, 0, line + 1, 1}}
			if lead != "" {
				l.LeadingComments = proto.String(lead)
			}
			if trail != "" {
				l.TrailingComments = proto.String(trail)
			}
			return l
		}
		swap := ndBool("otherDeclaredFirst")
		la, lb := int32(10), int32(30)
		if swap {
			la, lb = lb, la
		}
		fdp.SourceCodeInfo = &descriptorpb.SourceCodeInfo{Location: []*descriptorpb.SourceCodeInfo_Location{
			loc([]int32{4, 0}, la, " about M\n", ""),
			loc([]int32{4, 1}, lb, "", " trailing\n"),
			loc([]int32{4, 0, 2, 0}, la+1, " field a\n", " inline\n"),
			loc([]int32{4, 0, 2, 1}, la+3, "", " two\n lines\n"),
		}}
	}
	return fdp
}

func HarnessPrintFileDeterministic() {
	fdp := verifPrintableFile()
	var file protoreflect.FileDescriptor
	if verifNative() {
		// native replay: the protobuf-go runtime's own descriptors (missing imports
		// and the extended google.protobuf messages become placeholders)
		real, err := protodesc.FileOptions{AllowUnresolvable: true}.New(fdp, protoregistry.GlobalFiles)
		if err != nil {
			verifAssume(false) // a harness problem, not a finding: reported as diverged
		}
		file = real
	} else {
		file = j5schema.VerifNewUniverse(fdp).Files[0]
	}
	verifTermBudget(6000000)
	first, err1 := printFile(file, "generated")
	second, err2 := printFile(file, "generated")
	verifEndTermBudget()
	verifAssert(err1 == nil && err2 == nil, "printable-file-printed")
	if err1 != nil || err2 != nil {
		return
	}
	verifAssert(string(first) == string(second), "two-prints-of-one-descriptor-identical")
	// every extended message gets exactly one extend block
	want := 0
	seen := map[string]bool{}
	for _, x := range fdp.Extension {
		if !seen[x.GetExtendee()] {
			want++
		}
		seen[x.GetExtendee()] = true
	}
	got := 0
	for i := 0; i+7 <= len(first); i++ {
		if string(first[i:i+7]) == "extend " && (i == 0 || first[i-1] == '\n') {
			got++
		}
	}
	verifAssert(got == want, "one-extend-block-per-extended-message")
}

// ---- options ----

func verifFileProto(f protoreflect.FileDescriptor) *descriptorpb.FileDescriptorProto {
	return j5schema.VerifFileProto(f)
}

// HarnessPrintFileOptions: printing of options. A field carries two or three
// extension options, a message two; the real Builder.OptionsFor collects them
// with Message.Range — whose order protobuf-go leaves open, and which the
// harness chooses arbitrarily for every call — sorts them by source location or
// extension index, and the printer renders them (parseOption, Simplify,
// WalkOptionField, printOption, printFieldStyle). Two prints of the same
// descriptor must be identical. The extensions are (buf.validate.field) and
// (j5.list.v1.field), which have the same index in their files, plus
// (j5.ext.v1.key); natively the replay uses the real extensions on a
// protodesc-built descriptor.
func HarnessPrintFileOptions() {
	str := descriptorpb.FieldDescriptorProto_TYPE_STRING.Enum()
	opt := descriptorpb.FieldDescriptorProto_LABEL_OPTIONAL.Enum()
	withKey := ndBool("keyOption")
	withMsgOpts := ndBool("messageOptions")
	fieldOpts := &descriptorpb.FieldOptions{}
	vOpt := &validate.FieldConstraints{Required: proto.Bool(true)}
	lOpt := &list_j5pb.FieldConstraint{Type: &list_j5pb.FieldConstraint_String_{String_: &list_j5pb.StringRules{
		WellKnown: &list_j5pb.StringRules_OpenText{OpenText: &list_j5pb.OpenTextRules{Searching: &list_j5pb.SearchingConstraint{Searchable: true}}}}}}
	kOpt := &ext_j5pb.PSMKeyFieldOptions{PrimaryKey: true}
	mOpt := &ext_j5pb.MessageOptions{Type: &ext_j5pb.MessageOptions_Object{Object: &ext_j5pb.ObjectMessageOptions{}}}
	pOpt := &ext_j5pb.PSMOptions{EntityName: "thing"}
	msgOpts := &descriptorpb.MessageOptions{}
	emptyOpts := &descriptorpb.MessageOptions{} // a message with options and nothing else
	fdp := &descriptorpb.FileDescriptorProto{Name: proto.String("p/v1/x.proto"), Package: proto.String("p.v1"), Syntax: proto.String("proto3"),
		Dependency: []string{"buf/validate/validate.proto", "j5/ext/v1/annotations.proto", "j5/list/v1/annotations.proto"},
		MessageType: []*descriptorpb.DescriptorProto{{Name: proto.String("M"), Options: msgOpts, Field: []*descriptorpb.FieldDescriptorProto{
			{Name: proto.String("a"), Number: proto.Int32(1), Type: str, Label: opt, Options: fieldOpts},
			{Name: proto.String("b"), Number: proto.Int32(2), Type: str, Label: opt},
		}}, {Name: proto.String("Empty"), Options: emptyOpts}}}
	// source information that puts the (empty) message option of Empty on several lines
	if withMsgOpts && ndBool("optionWrittenOverSeveralLines") {
		fdp.SourceCodeInfo = &descriptorpb.SourceCodeInfo{Location: []*descriptorpb.SourceCodeInfo_Location{
			{Path: []int32{4, 1}, Span: []int32{20, 0, 24, 1}},
			{Path: []int32{4, 1, 7, 555000}, Span: []int32{21, 2, 22, 4}},
		}}
	}
	var file protoreflect.FileDescriptor
	if verifNative() {
		proto.SetExtension(fieldOpts, validate.E_Field, vOpt)
		proto.SetExtension(fieldOpts, list_j5pb.E_Field, lOpt)
		if withKey {
			proto.SetExtension(fieldOpts, ext_j5pb.E_Key, kOpt)
		}
		if withMsgOpts {
			proto.SetExtension(msgOpts, ext_j5pb.E_Message, mOpt)
			proto.SetExtension(msgOpts, ext_j5pb.E_Psm, pOpt)
			proto.SetExtension(emptyOpts, ext_j5pb.E_Message, mOpt)
		}
		real, err := protodesc.NewFile(fdp, protoregistry.GlobalFiles)
		if err != nil {
			verifAssume(false) // a harness problem, not a finding
		}
		file = real
	} else {
		u := j5schema.VerifNewUniverse(fdp)
		fo := []j5schema.VerifFakeOption{
			{Desc: u.VerifFakeExtension("buf.validate", "field", 1159, 2, vOpt.ProtoReflect().Descriptor()), Value: protoreflect.ValueOfMessage(vOpt.ProtoReflect())},
			{Desc: u.VerifFakeExtension("j5.list.v1", "field", 86510000, 2, lOpt.ProtoReflect().Descriptor()), Value: protoreflect.ValueOfMessage(lOpt.ProtoReflect())},
		}
		if withKey {
			fo = append(fo, j5schema.VerifFakeOption{Desc: u.VerifFakeExtension("j5.ext.v1", "key", 555101, 1, kOpt.ProtoReflect().Descriptor()), Value: protoreflect.ValueOfMessage(kOpt.ProtoReflect())})
		}
		u.VerifSetFakeOptions("p.v1.M.a", fo)
		if withMsgOpts {
			u.VerifSetFakeOptions("p.v1.M", []j5schema.VerifFakeOption{
				{Desc: u.VerifFakeExtension("j5.ext.v1", "message", 555000, 3, mOpt.ProtoReflect().Descriptor()), Value: protoreflect.ValueOfMessage(mOpt.ProtoReflect())},
				{Desc: u.VerifFakeExtension("j5.ext.v1", "psm", 555101, 0, pOpt.ProtoReflect().Descriptor()), Value: protoreflect.ValueOfMessage(pOpt.ProtoReflect())},
			})
			u.VerifSetFakeOptions("p.v1.Empty", []j5schema.VerifFakeOption{
				{Desc: u.VerifFakeExtension("j5.ext.v1", "message", 555000, 3, mOpt.ProtoReflect().Descriptor()), Value: protoreflect.ValueOfMessage(mOpt.ProtoReflect())},
			})
		}
		// every Range over an options message picks its own order
		u.OptionOrder = func(n int) []int {
			switch n {
			case 2:
				return [][]int{{0, 1}, {1, 0}}[ndChoice("rangeOrder2", 2)]
			case 3:
				return [][]int{{0, 1, 2}, {0, 2, 1}, {1, 0, 2}, {1, 2, 0}, {2, 0, 1}, {2, 1, 0}}[ndChoice("rangeOrder3", 6)]
			}
			order := make([]int, n)
			for i := range order {
				order[i] = i
			}
			return order
		}
		file = u.Files[0]
	}
	verifTermBudget(6000000)
	first, err1 := printFile(file, "generated")
	second, err2 := printFile(file, "generated")
	verifEndTermBudget()
	verifAssert(err1 == nil && err2 == nil, "file-with-options-printed")
	if err1 != nil || err2 != nil {
		return
	}
	if verifParam("debug", 0) == 1 {
		verifAssert(string(first) == "", "DEBUG:"+string(first))
	}
	verifAssert(string(first) == string(second), "two-prints-of-the-options-identical")
	// every option that was set is printed, once
	count := func(sub string) int {
		n := 0
		for i := 0; i+len(sub) <= len(first); i++ {
			if string(first[i:i+len(sub)]) == sub {
				n++
			}
		}
		return n
	}
	verifAssert(count("(buf.validate.field)") == 1 && count("(j5.list.v1.field)") == 1, "field-options-printed-once-each")
	wantKey, wantMsg, wantPsm := 0, 0, 0
	if withKey {
		wantKey = 1
	}
	if withMsgOpts {
		wantMsg, wantPsm = 2, 1
	}
	verifAssert(count("(j5.ext.v1.key)") == wantKey, "key-option-printed-iff-set")
	verifAssert(count("(j5.ext.v1.message)") == wantMsg && count("(j5.ext.v1.psm)") == wantPsm, "message-options-printed-also-on-a-message-without-fields")
}
