package protoprint

import (
	"buf.build/gen/go/bufbuild/protovalidate/protocolbuffers/go/buf/validate"
	"github.com/pentops/j5/gen/j5/ext/v1/ext_j5pb"
	"github.com/pentops/j5/gen/j5/list/v1/list_j5pb"
	"github.com/pentops/j5/gen/j5/schema/v1/schema_j5pb"
	"github.com/pentops/j5/internal/j5s/protoprint/optionreflect"
	"github.com/pentops/j5/lib/j5schema"
	"google.golang.org/genproto/googleapis/api/annotations"
	"google.golang.org/protobuf/proto"
	"google.golang.org/protobuf/reflect/protodesc"
	"google.golang.org/protobuf/reflect/protoreflect"
	"google.golang.org/protobuf/reflect/protoregistry"
	"google.golang.org/protobuf/types/descriptorpb"
)

// C14 (printing half): the whole printer (printFile, printSection,
// printElements, printMessage/Enum/Oneof/Service/Method/Field/Extension,
// comments, element ordering) on a file drawn by choices and viewed through
// fakedesc. The same descriptor is printed twice in one run; every `range`
// over a Go map inside the printer takes an arbitrary order each time
// (engine.maporder), so text that depends on map iteration differs between the
// two prints for some order. Options are left out here (OptionsFor is cut to
// "no options"; their rendering is checked by HarnessOptionMapOrder and
// HarnessPrototextString).

func verifNoOptions(b *optionreflect.Builder, parent protoreflect.Descriptor) ([]*optionreflect.OptionDefinition, error) {
	return nil, nil
}

var verifExtendees = []string{".google.protobuf.MessageOptions", ".google.protobuf.FieldOptions", ".google.protobuf.EnumOptions"}

func verifPrintableFile() *descriptorpb.FileDescriptorProto {
	str := descriptorpb.FieldDescriptorProto_TYPE_STRING.Enum()
	i32 := descriptorpb.FieldDescriptorProto_TYPE_INT32.Enum()
	msgT := descriptorpb.FieldDescriptorProto_TYPE_MESSAGE.Enum()
	enumT := descriptorpb.FieldDescriptorProto_TYPE_ENUM.Enum()
	opt := descriptorpb.FieldDescriptorProto_LABEL_OPTIONAL.Enum()
	rep := descriptorpb.FieldDescriptorProto_LABEL_REPEATED.Enum()
	fdp := &descriptorpb.FileDescriptorProto{Name: proto.String("p/v1/x.proto"), Package: proto.String("p.v1"), Syntax: proto.String("proto3")}
	for i := 0; i < ndIntRange("imports", 0, 2); i++ {
		fdp.Dependency = append(fdp.Dependency, []string{"z/last.proto", "a/first.proto"}[i])
	}
	// file-level extensions: 0..X fields, each extending one of three messages
	nx := ndIntRange("extensions", 0, verifParam("X", 3))
	if nx > 0 {
		fdp.Dependency = append(fdp.Dependency, "google/protobuf/descriptor.proto")
	}
	for i := 0; i < nx; i++ {
		fdp.Extension = append(fdp.Extension, &descriptorpb.FieldDescriptorProto{
			Name: proto.String([]string{"first", "second", "third", "fourth"}[i]), Number: proto.Int32(int32(50000 + i)), Type: str, Label: opt,
			Extendee: proto.String(verifExtendees[ndChoice("extendee", len(verifExtendees))])})
	}
	nested := &descriptorpb.DescriptorProto{Name: proto.String("N"), Field: []*descriptorpb.FieldDescriptorProto{{Name: proto.String("v"), Number: proto.Int32(1), Type: str, Label: opt}}}
	inner := &descriptorpb.EnumDescriptorProto{Name: proto.String("K"), Value: []*descriptorpb.EnumValueDescriptorProto{{Name: proto.String("K_UNSPECIFIED"), Number: proto.Int32(0)}, {Name: proto.String("K_ONE"), Number: proto.Int32(1)}}}
	m := &descriptorpb.DescriptorProto{Name: proto.String("M"),
		Field: []*descriptorpb.FieldDescriptorProto{
			{Name: proto.String("a"), Number: proto.Int32(1), Type: str, Label: opt},
			{Name: proto.String("r"), Number: proto.Int32(2), Type: i32, Label: rep},
			{Name: proto.String("n"), Number: proto.Int32(3), Type: msgT, TypeName: proto.String(".p.v1.M.N"), Label: opt},
			{Name: proto.String("k"), Number: proto.Int32(4), Type: enumT, TypeName: proto.String(".p.v1.M.K"), Label: opt},
			{Name: proto.String("x"), Number: proto.Int32(5), Type: str, Label: opt, OneofIndex: proto.Int32(0)},
			{Name: proto.String("y"), Number: proto.Int32(6), Type: msgT, TypeName: proto.String(".p.v1.Other"), Label: opt, OneofIndex: proto.Int32(0)},
			{Name: proto.String("o"), Number: proto.Int32(7), Type: str, Label: opt, Proto3Optional: proto.Bool(true), OneofIndex: proto.Int32(1)},
		},
		OneofDecl:  []*descriptorpb.OneofDescriptorProto{{Name: proto.String("choice")}, {Name: proto.String("_o")}},
		NestedType: []*descriptorpb.DescriptorProto{nested},
		EnumType:   []*descriptorpb.EnumDescriptorProto{inner},
	}
	other := &descriptorpb.DescriptorProto{Name: proto.String("Other"), Field: []*descriptorpb.FieldDescriptorProto{
		{Name: proto.String("back"), Number: proto.Int32(1), Type: msgT, TypeName: proto.String(".p.v1.M"), Label: opt}}}
	fdp.MessageType = []*descriptorpb.DescriptorProto{m, other}
	fdp.EnumType = []*descriptorpb.EnumDescriptorProto{{Name: proto.String("Top"), Value: []*descriptorpb.EnumValueDescriptorProto{{Name: proto.String("TOP_UNSPECIFIED"), Number: proto.Int32(0)}}}}
	if ndBool("service") {
		fdp.Service = []*descriptorpb.ServiceDescriptorProto{{Name: proto.String("Svc"), Method: []*descriptorpb.MethodDescriptorProto{
			{Name: proto.String("Do"), InputType: proto.String(".p.v1.M"), OutputType: proto.String(".p.v1.Other")}}}}
	}
	// source info: comments and line numbers on some elements (which decide the
	// element order), present or not
	if ndBool("sourceInfo") {
		loc := func(path []int32, line int32, lead, trail string) *descriptorpb.SourceCodeInfo_Location {
			l := &descriptorpb.SourceCodeInfo_Location{Path: path, Span: []int32{line, 0, line + 1, 1}}
			if lead != "" {
				l.LeadingComments = proto.String(lead)
			}
			if trail != "" {
				l.TrailingComments = proto.String(trail)
			}
			return l
		}
		swap := ndBool("otherDeclaredFirst")
		la, lb := int32(10), int32(30)
		if swap {
			la, lb = lb, la
		}
		fdp.SourceCodeInfo = &descriptorpb.SourceCodeInfo{Location: []*descriptorpb.SourceCodeInfo_Location{
			loc([]int32{4, 0}, la, " about M\n", ""),
			loc([]int32{4, 1}, lb, "", " trailing\n"),
			loc([]int32{4, 0, 2, 0}, la+1, " field a\n", " inline\n"),
			loc([]int32{4, 0, 2, 1}, la+3, "", " two\n lines\n"),
		}}
		// one more leading comment (two lines) on an element of another kind
		extra := [][]int32{nil, {4, 0, 3, 0}, {4, 0, 4, 0}, {4, 0, 4, 0, 2, 1}, {4, 0, 8, 0}, {4, 0, 2, 4}, {4, 0, 2, 2}, {5, 0}, {5, 0, 2, 0}, {4, 1, 2, 0}, {6, 0}, {6, 0, 2, 0}, {7, 0}}
		k := ndChoice("alsoCommented(0 none,1 nested message,2 nested enum,3 its value,4 oneof,5 oneof field,6 field after a two-line trailing comment,7 top enum,8 its value,9 field of the other message,10 service,11 method,12 extension)", len(extra))
		if k >= 10 && k <= 11 && len(fdp.Service) == 0 || k == 12 && nx == 0 {
			k = 0
		}
		if k > 0 {
			line := la + 6
			if extra[k][0] != 4 || extra[k][1] != 0 {
				line = 50 + int32(k)
			}
			fdp.SourceCodeInfo.Location = append(fdp.SourceCodeInfo.Location, loc(extra[k], line, " first line\n second line\n", ""))
		}
	}
	return fdp
}

func HarnessPrintFileDeterministic() {
	fdp := verifPrintableFile()
	var file protoreflect.FileDescriptor
	if verifNative() {
		// native replay: the protobuf-go runtime's own descriptors (missing imports
		// and the extended google.protobuf messages become placeholders)
		real, err := protodesc.FileOptions{AllowUnresolvable: true}.New(fdp, protoregistry.GlobalFiles)
		if err != nil {
			verifAssume(false) // a harness problem, not a finding: reported as diverged
		}
		file = real
	} else {
		file = j5schema.VerifNewUniverse(fdp).Files[0]
	}
	verifTermBudget(6000000)
	first, err1 := printFile(file, "generated")
	second, err2 := printFile(file, "generated")
	verifEndTermBudget()
	verifAssert(err1 == nil && err2 == nil, "printable-file-printed")
	if err1 != nil || err2 != nil {
		return
	}
	verifAssert(string(first) == string(second), "two-prints-of-one-descriptor-identical")
	// every extended message gets exactly one extend block
	want := 0
	seen := map[string]bool{}
	for _, x := range fdp.Extension {
		if !seen[x.GetExtendee()] {
			want++
		}
		seen[x.GetExtendee()] = true
	}
	got := 0
	for i := 0; i+7 <= len(first); i++ {
		if string(first[i:i+7]) == "extend " && (i == 0 || first[i-1] == '\n') {
			got++
		}
	}
	verifAssert(got == want, "one-extend-block-per-extended-message")
}

// ---- options ----

func verifFileProto(f protoreflect.FileDescriptor) *descriptorpb.FileDescriptorProto {
	return j5schema.VerifFileProto(f)
}

// HarnessPrintFileOptions: printing of options. A field carries two or three
// extension options, a message two; the real Builder.OptionsFor collects them
// with Message.Range — whose order protobuf-go leaves open, and which the
// harness chooses arbitrarily for every call — sorts them by source location or
// extension index, and the printer renders them (parseOption, Simplify,
// WalkOptionField, printOption, printFieldStyle). Two prints of the same
// descriptor must be identical. The extensions are (buf.validate.field) and
// (j5.list.v1.field), which have the same index in their files, plus
// (j5.ext.v1.key); natively the replay uses the real extensions on a
// protodesc-built descriptor.
func HarnessPrintFileOptions() {
	str := descriptorpb.FieldDescriptorProto_TYPE_STRING.Enum()
	opt := descriptorpb.FieldDescriptorProto_LABEL_OPTIONAL.Enum()
	withKey := ndBool("keyOption")
	withMsgOpts := ndBool("messageOptions")
	fieldOpts := &descriptorpb.FieldOptions{}
	vOpt, vLeaves := verifValidateShape(ndChoice("validateOptionShape", 8))
	lOpt := &list_j5pb.FieldConstraint{Type: &list_j5pb.FieldConstraint_String_{String_: &list_j5pb.StringRules{
		WellKnown: &list_j5pb.StringRules_OpenText{OpenText: &list_j5pb.OpenTextRules{Searching: &list_j5pb.SearchingConstraint{Searchable: true}}}}}}
	kOpt := &ext_j5pb.PSMKeyFieldOptions{PrimaryKey: true}
	mOpt := &ext_j5pb.MessageOptions{Type: &ext_j5pb.MessageOptions_Object{Object: &ext_j5pb.ObjectMessageOptions{}}}
	pOpt := &ext_j5pb.PSMOptions{EntityName: "thing"}
	psmPart := withMsgOpts && !withKey && ndBool("psmEntityPart")
	if psmPart {
		pOpt.EntityPart = schema_j5pb.EntityPart_ENTITY_PART_KEYS.Enum()
	}
	msgOpts := &descriptorpb.MessageOptions{}
	emptyOpts := &descriptorpb.MessageOptions{} // a message with options and nothing else
	singleOpts := &descriptorpb.FieldOptions{}
	// one further variation at a time, on the file without key and message options
	variant := 0
	if !withKey && !withMsgOpts {
		variant = ndChoice("variant(0 none,1-3 single option source layout,4 second method option,5 two map entries,6 http rule with body,7 enum value option with only its map set)", 8)
	}
	// an enum, one of its values, a service and its method carry options too
	enumOpts, valueOpts := &descriptorpb.EnumOptions{}, &descriptorpb.EnumValueOptions{}
	svcOpts, methodOpts := &descriptorpb.ServiceOptions{}, &descriptorpb.MethodOptions{}
	eOpt := &ext_j5pb.EnumOptions{NoDefault: true, InfoFields: []*ext_j5pb.EnumInfoField{{Name: "n", Label: "l"}}}
	evOpt := &ext_j5pb.EnumValueOptions{Description: "d", Info: map[string]string{"k1": "v1"}}
	twoInfo := variant == 5
	mapOnly := variant == 7
	if mapOnly {
		evOpt.Description = ""
	}
	if twoInfo {
		evOpt.Info["K1"] = "v0" // keys differing only in case; Range over the map takes either order (engine.maporder)
	}
	sOpt := &ext_j5pb.ServiceOptions{Type: &ext_j5pb.ServiceOptions_StateQuery_{StateQuery: &ext_j5pb.ServiceOptions_StateQuery{Entity: "thing"}}}
	hOpt := &annotations.HttpRule{Pattern: &annotations.HttpRule_Get{Get: "/v1/x"}}
	httpBody := variant == 6
	if httpBody {
		hOpt = &annotations.HttpRule{Pattern: &annotations.HttpRule_Post{Post: "/v1/x"}, Body: "*"}
	}
	jOpt := &ext_j5pb.MethodOptions{Label: "L", StateQuery: &ext_j5pb.StateQueryMethodOptions{Get: true}}
	withMethodOpt := variant == 4
	fdp := &descriptorpb.FileDescriptorProto{Name: proto.String("p/v1/x.proto"), Package: proto.String("p.v1"), Syntax: proto.String("proto3"),
		Dependency: []string{"buf/validate/validate.proto", "google/api/annotations.proto", "j5/ext/v1/annotations.proto", "j5/list/v1/annotations.proto"},
		EnumType: []*descriptorpb.EnumDescriptorProto{{Name: proto.String("E"), Options: enumOpts, Value: []*descriptorpb.EnumValueDescriptorProto{
			{Name: proto.String("E_UNSPECIFIED"), Number: proto.Int32(0)}, {Name: proto.String("E_ONE"), Number: proto.Int32(1), Options: valueOpts}}}},
		Service: []*descriptorpb.ServiceDescriptorProto{{Name: proto.String("S"), Options: svcOpts, Method: []*descriptorpb.MethodDescriptorProto{
			{Name: proto.String("Do"), InputType: proto.String(".p.v1.M"), OutputType: proto.String(".p.v1.Empty"), Options: methodOpts}}}},
		MessageType: []*descriptorpb.DescriptorProto{{Name: proto.String("M"), Options: msgOpts, Field: []*descriptorpb.FieldDescriptorProto{
			{Name: proto.String("a"), Number: proto.Int32(1), Type: str, Label: opt, Options: fieldOpts},
			{Name: proto.String("b"), Number: proto.Int32(2), Type: str, Label: opt},
			{Name: proto.String("c"), Number: proto.Int32(3), Type: str, Label: opt, Options: singleOpts},
		}}, {Name: proto.String("Empty"), Options: emptyOpts}}}
	// field c carries one option; where the source had it decides the layout:
	// no location, on the field's line, on a line of its own, over several lines
	cLoc := 0
	if variant >= 1 && variant <= 3 {
		cLoc = variant
	}
	if cLoc > 0 {
		span := [][]int32{nil, {12, 15, 38}, {13, 4, 30}, {13, 4, 15, 5}}[cLoc]
		fdp.SourceCodeInfo = &descriptorpb.SourceCodeInfo{Location: []*descriptorpb.SourceCodeInfo_Location{
			{Path: []int32{4, 0, 2, 2}, Span: []int32{12, 2, 16, 4}},
			{Path: []int32{4, 0, 2, 2, 8, 1159}, Span: span},
		}}
	}
	// source information that puts the (empty) message option of Empty on several lines
	if withMsgOpts && !withKey && ndBool("optionWrittenOverSeveralLines") {
		fdp.SourceCodeInfo = &descriptorpb.SourceCodeInfo{Location: []*descriptorpb.SourceCodeInfo_Location{
			{Path: []int32{4, 1}, Span: []int32{20, 0, 24, 1}},
			{Path: []int32{4, 1, 7, 555000}, Span: []int32{21, 2, 22, 4}},
		}}
	}
	var file protoreflect.FileDescriptor
	if verifNative() {
		proto.SetExtension(fieldOpts, validate.E_Field, vOpt)
		proto.SetExtension(fieldOpts, list_j5pb.E_Field, lOpt)
		proto.SetExtension(singleOpts, validate.E_Field, vOpt)
		proto.SetExtension(enumOpts, ext_j5pb.E_Enum, eOpt)
		proto.SetExtension(valueOpts, ext_j5pb.E_EnumValue, evOpt)
		proto.SetExtension(svcOpts, ext_j5pb.E_Service, sOpt)
		proto.SetExtension(methodOpts, annotations.E_Http, hOpt)
		if withMethodOpt {
			proto.SetExtension(methodOpts, ext_j5pb.E_Method, jOpt)
		}
		if withKey {
			proto.SetExtension(fieldOpts, ext_j5pb.E_Key, kOpt)
		}
		if withMsgOpts {
			proto.SetExtension(msgOpts, ext_j5pb.E_Message, mOpt)
			proto.SetExtension(msgOpts, ext_j5pb.E_Psm, pOpt)
			proto.SetExtension(emptyOpts, ext_j5pb.E_Message, mOpt)
		}
		real, err := protodesc.NewFile(fdp, protoregistry.GlobalFiles)
		if err != nil {
			verifAssume(false) // a harness problem, not a finding
		}
		file = real
	} else {
		u := j5schema.VerifNewUniverse(fdp)
		fo := []j5schema.VerifFakeOption{
			{Desc: u.VerifFakeExtension("buf.validate", "field", 1159, 2, vOpt.ProtoReflect().Descriptor()), Value: protoreflect.ValueOfMessage(vOpt.ProtoReflect())},
			{Desc: u.VerifFakeExtension("j5.list.v1", "field", 86510000, 2, lOpt.ProtoReflect().Descriptor()), Value: protoreflect.ValueOfMessage(lOpt.ProtoReflect())},
		}
		if withKey {
			fo = append(fo, j5schema.VerifFakeOption{Desc: u.VerifFakeExtension("j5.ext.v1", "key", 555101, 1, kOpt.ProtoReflect().Descriptor()), Value: protoreflect.ValueOfMessage(kOpt.ProtoReflect())})
		}
		u.VerifSetFakeOptions("p.v1.M.a", fo)
		u.VerifSetFakeOptions("p.v1.M.c", fo[:1])
		one := func(pkg, name string, number int32, index int, m proto.Message) j5schema.VerifFakeOption {
			return j5schema.VerifFakeOption{Desc: u.VerifFakeExtension(pkg, name, number, index, m.ProtoReflect().Descriptor()), Value: protoreflect.ValueOfMessage(m.ProtoReflect())}
		}
		u.VerifSetFakeOptions("p.v1.E", []j5schema.VerifFakeOption{one("j5.ext.v1", "enum", 555000, 6, eOpt)})
		u.VerifSetFakeOptions("p.v1.E.E_ONE", []j5schema.VerifFakeOption{one("j5.ext.v1", "enum_value", 555000, 7, evOpt)})
		u.VerifSetFakeOptions("p.v1.S", []j5schema.VerifFakeOption{one("j5.ext.v1", "service", 555101, 2, sOpt)})
		mo := []j5schema.VerifFakeOption{one("google.api", "http", 72295728, 0, hOpt)}
		if withMethodOpt {
			mo = append(mo, one("j5.ext.v1", "method", 555000, 5, jOpt))
		}
		u.VerifSetFakeOptions("p.v1.S.Do", mo)
		if withMsgOpts {
			u.VerifSetFakeOptions("p.v1.M", []j5schema.VerifFakeOption{
				{Desc: u.VerifFakeExtension("j5.ext.v1", "message", 555000, 3, mOpt.ProtoReflect().Descriptor()), Value: protoreflect.ValueOfMessage(mOpt.ProtoReflect())},
				{Desc: u.VerifFakeExtension("j5.ext.v1", "psm", 555101, 0, pOpt.ProtoReflect().Descriptor()), Value: protoreflect.ValueOfMessage(pOpt.ProtoReflect())},
			})
			u.VerifSetFakeOptions("p.v1.Empty", []j5schema.VerifFakeOption{
				{Desc: u.VerifFakeExtension("j5.ext.v1", "message", 555000, 3, mOpt.ProtoReflect().Descriptor()), Value: protoreflect.ValueOfMessage(mOpt.ProtoReflect())},
			})
		}
		// every Range over an options message picks its own order
		u.OptionOrder = func(n int) []int {
			switch n {
			case 2:
				return [][]int{{0, 1}, {1, 0}}[ndChoice("rangeOrder2", 2)]
			case 3:
				return [][]int{{0, 1, 2}, {0, 2, 1}, {1, 0, 2}, {1, 2, 0}, {2, 0, 1}, {2, 1, 0}}[ndChoice("rangeOrder3", 6)]
			}
			order := make([]int, n)
			for i := range order {
				order[i] = i
			}
			return order
		}
		file = u.Files[0]
	}
	verifTermBudget(6000000)
	first, err1 := printFile(file, "generated")
	second, err2 := printFile(file, "generated")
	verifEndTermBudget()
	verifAssert(err1 == nil && err2 == nil, "file-with-options-printed")
	if err1 != nil || err2 != nil {
		return
	}
	if verifParam("debug", 0) == 1 {
		verifAssert(string(first) == "", "DEBUG:"+string(first))
	}
	verifAssert(string(first) == string(second), "two-prints-of-the-options-identical")
	// every option that was set is printed, once
	count := func(sub string) int {
		n := 0
		for i := 0; i+len(sub) <= len(first); i++ {
			if string(first[i:i+len(sub)]) == sub {
				n++
			}
		}
		return n
	}
	verifAssert(count("(buf.validate.field)") == 2 && count("(j5.list.v1.field)") == 1, "field-options-printed-once-each")
	wantKey, wantMsg, wantPsm := 0, 0, 0
	if withKey {
		wantKey = 1
	}
	if withMsgOpts {
		wantMsg, wantPsm = 2, 1
	}
	verifAssert(count("(j5.ext.v1.key)") == wantKey, "key-option-printed-iff-set")
	verifAssert(count("(j5.ext.v1.message)") == wantMsg && count("(j5.ext.v1.psm)") == wantPsm, "message-options-printed-also-on-a-message-without-fields")

	// the printed options, read back: every scalar of every option value comes
	// back under its path from the extension name, whatever mix of
	// `(ext).sub.path = v`, `{ ... }` literals and `[ ... ]` lists was printed
	got, ok := rdParse(first)
	verifAssert(ok && got != nil && len(got.messages) == 2, "printed-options-are-in-the-option-grammar")
	if !ok || got == nil || len(got.messages) != 2 {
		return
	}
	var gm, ge *rdMessage
	for _, c := range got.messages {
		if c.name == "M" {
			gm = c
		}
		if c.name == "Empty" {
			ge = c
		}
	}
	verifAssert(gm != nil && ge != nil && len(gm.fields) == 3, "messages-and-fields-read-back")
	if gm == nil || ge == nil || len(gm.fields) != 3 {
		return
	}
	wantField := append([]rdLeaf{}, vLeaves...)
	wantField = append(wantField, rdLeaf{"(j5.list.v1.field)/string/open_text/searching/searchable", "true"})
	if withKey {
		wantField = append(wantField, rdLeaf{"(j5.ext.v1.key)/primary_key", "true"})
	}
	wantM, wantE := []rdLeaf{}, []rdLeaf{}
	if withMsgOpts {
		wantM = append(wantM, rdLeaf{"(j5.ext.v1.message)/object", "{}"}, rdLeaf{"(j5.ext.v1.psm)/entity_name", "\"thing\""})
		if psmPart {
			wantM = append(wantM, rdLeaf{"(j5.ext.v1.psm)/entity_part", "ENTITY_PART_KEYS"})
		}
		wantE = append(wantE, rdLeaf{"(j5.ext.v1.message)/object", "{}"})
	}
	for _, f := range gm.fields {
		if f.name == "a" {
			verifAssert(rdSameLeaves(f.opts, wantField), "field-option-values-read-back")
		} else if f.name == "c" {
			verifAssert(rdSameLeaves(f.opts, vLeaves), "single-field-option-value-read-back")
		} else {
			verifAssert(len(f.opts) == 0, "field-without-options-has-none")
		}
	}
	verifAssert(rdSameLeaves(gm.opts, wantM), "message-option-values-read-back")
	verifAssert(rdSameLeaves(ge.opts, wantE), "empty-message-option-values-read-back")

	// enum, enum value, service and method options
	verifAssert(len(got.enums) == 1 && len(got.services) == 1 && len(got.services[0].methods) == 1, "enum-and-service-read-back")
	if len(got.enums) != 1 || len(got.services) != 1 || len(got.services[0].methods) != 1 {
		return
	}
	wantEnum := []rdLeaf{{"(j5.ext.v1.enum)/no_default", "true"}, {"(j5.ext.v1.enum)/info_fields/0/name", "\"n\""},
		{"(j5.ext.v1.enum)/info_fields/0/label", "\"l\""}}
	if !mapOnly {
		wantEnum = append(wantEnum, rdLeaf{"E_ONE:(j5.ext.v1.enum_value)/description", "\"d\""})
	}
	const info = "E_ONE:(j5.ext.v1.enum_value)/info/"
	if twoInfo { // map entries are printed as a list of {key, value}, sorted by key
		wantEnum = append(wantEnum, rdLeaf{info + "0/key", "\"K1\""}, rdLeaf{info + "0/value", "\"v0\""}, rdLeaf{info + "1/key", "\"k1\""}, rdLeaf{info + "1/value", "\"v1\""})
	} else {
		wantEnum = append(wantEnum, rdLeaf{info + "0/key", "\"k1\""}, rdLeaf{info + "0/value", "\"v1\""})
	}
	verifAssert(rdSameLeaves(got.enums[0].opts, wantEnum), "enum-and-enum-value-options-read-back")
	verifAssert(rdSameLeaves(got.services[0].opts, []rdLeaf{{"(j5.ext.v1.service)/state_query/entity", "\"thing\""}}), "service-option-read-back")
	wantMethod := []rdLeaf{{"(google.api.http)/get", "\"/v1/x\""}}
	if httpBody {
		wantMethod = []rdLeaf{{"(google.api.http)/post", "\"/v1/x\""}, {"(google.api.http)/body", "\"*\""}}
	}
	if withMethodOpt {
		wantMethod = append(wantMethod, rdLeaf{"(j5.ext.v1.method)/label", "\"L\""}, rdLeaf{"(j5.ext.v1.method)/state_query/get", "true"})
	}
	verifAssert(rdSameLeaves(got.services[0].methods[0].opts, wantMethod), "method-options-read-back")
}

// rdSameLeaves: the same set of (path, value) leaves, each once
func rdSameLeaves(got, want []rdLeaf) bool {
	if len(got) != len(want) {
		return false
	}
	for _, w := range want {
		n := 0
		for _, g := range got {
			if g.path == w.path && g.value == w.value {
				n++
			}
		}
		if n != 1 {
			return false
		}
	}
	return true
}

// verifValidateShape: (buf.validate.field) values of different shapes, with the
// leaves a reader of the printed option must find (strings in text-format
// escaping)
func verifValidateShape(shape int) (*validate.FieldConstraints, []rdLeaf) {
	const x = "(buf.validate.field)"
	str := func(r *validate.StringRules) *validate.FieldConstraints {
		return &validate.FieldConstraints{Type: &validate.FieldConstraints_String_{String_: r}}
	}
	switch shape {
	case 1: // two fields, one a message with two fields
		c := str(&validate.StringRules{MinLen: proto.Uint64(1), MaxLen: proto.Uint64(5)})
		c.Required = proto.Bool(true)
		return c, []rdLeaf{{x + "/required", "true"}, {x + "/string/min_len", "1"}, {x + "/string/max_len", "5"}}
	case 2: // a list of two strings
		return str(&validate.StringRules{In: []string{"a", "b"}}), []rdLeaf{{x + "/string/in/0", "\"a\""}, {x + "/string/in/1", "\"b\""}}
	case 3: // a string needing escapes
		return str(&validate.StringRules{Pattern: proto.String("a\"b\\c\n'\u00e9;")}), []rdLeaf{{x + "/string/pattern", "\"a\\\"b\\\\c\\n'\\u00e9;\""}}
	case 4: // a list of one
		return str(&validate.StringRules{In: []string{"x"}}), []rdLeaf{{x + "/string/in/0", "\"x\""}}
	case 5: // nested messages below a message with two fields
		c := &validate.FieldConstraints{Type: &validate.FieldConstraints_Repeated{Repeated: &validate.RepeatedRules{MinItems: proto.Uint64(1),
			Items: str(&validate.StringRules{MinLen: proto.Uint64(2)})}}}
		return c, []rdLeaf{{x + "/repeated/min_items", "1"}, {x + "/repeated/items/string/min_len", "2"}}
	case 6: // numeric boundaries, negative
		c := &validate.FieldConstraints{Type: &validate.FieldConstraints_Int32{Int32: &validate.Int32Rules{
			LessThan: &validate.Int32Rules_Lt{Lt: 2147483647}, GreaterThan: &validate.Int32Rules_Gt{Gt: -2147483648}}}}
		return c, []rdLeaf{{x + "/int32/lt", "2147483647"}, {x + "/int32/gt", "-2147483648"}}
	case 7: // a list of messages and an enum
		c := &validate.FieldConstraints{Ignore: validate.Ignore_IGNORE_IF_UNPOPULATED.Enum(), Cel: []*validate.Constraint{
			{Id: proto.String("c1"), Expression: proto.String("this > 1")}, {Id: proto.String("c2"), Message: proto.String("m"), Expression: proto.String("this < 9")}}}
		return c, []rdLeaf{{x + "/ignore", "IGNORE_IF_UNPOPULATED"}, {x + "/cel/0/id", "\"c1\""}, {x + "/cel/0/expression", "\"this > 1\""},
			{x + "/cel/1/id", "\"c2\""}, {x + "/cel/1/message", "\"m\""}, {x + "/cel/1/expression", "\"this < 9\""}}
	}
	return &validate.FieldConstraints{Required: proto.Bool(true)}, []rdLeaf{{x + "/required", "true"}}
}
