package protoprint

import (
	"github.com/pentops/j5/lib/j5schema"
	"google.golang.org/protobuf/reflect/protodesc"
	"google.golang.org/protobuf/reflect/protoreflect"
	"google.golang.org/protobuf/reflect/protoregistry"
	"google.golang.org/protobuf/types/descriptorpb"
)

// H05c: the printed text of a whole file, read back. A small reference reader
// for the proto3 subset the printer emits (syntax, package, imports, extend
// blocks, messages with fields / map fields / oneofs / nested messages and
// enums, top-level enums, services with rpcs; // comments skipped) rebuilds the
// declarations; every message, field (name, number, label, type — type names
// resolved from their scope by the protobuf scoping rule), oneof membership,
// enum value, service and method of the printed descriptor must come back.

type rdTok struct {
	s string
}

// rdLex: the tokens, and for each token the leading comment attached to it by
// the protobuf rule: the // lines that stand alone on the lines directly above
// the line the token starts, with no blank line in between (a comment that
// follows a token on its line is a trailing comment and belongs to nothing
// below it).
func rdLex(text []byte) ([]string, []string, bool) {
	toks := []string{}
	leads := []string{}
	pending := ""                   // the comment block collected so far
	lineTok, lineCom := false, false // the current line holds a token / a comment
	emit := func(t string) {
		l := ""
		if !lineTok {
			l = pending
		}
		pending = ""
		lineTok = true
		toks = append(toks, t)
		leads = append(leads, l)
	}
	i := 0
	isWord := func(c byte) bool {
		return c == '_' || c == '.' || (c >= '0' && c <= '9') || (c >= 'a' && c <= 'z') || (c >= 'A' && c <= 'Z')
	}
	for i < len(text) {
		c := text[i]
		switch {
		case c == '\n':
			if !lineCom || lineTok {
				pending = "" // a blank line, or a line of code, ends the block
			}
			lineTok, lineCom = false, false
			i++
		case c == ' ' || c == '\t' || c == '\r':
			i++
		case c == '/' && i+1 < len(text) && text[i+1] == '/':
			j := i + 2
			for j < len(text) && text[j] != '\n' {
				j++
			}
			if !lineTok {
				pending += string(text[i+2:j]) + "\n"
				lineCom = true
			}
			i = j
		case c == '"':
			j := i + 1
			for j < len(text) && text[j] != '"' {
				if text[j] == '\\' {
					j++
				}
				j++
			}
			if j >= len(text) {
				return nil, nil, false
			}
			emit(string(text[i : j+1]))
			i = j + 1
		case isWord(c):
			j := i
			for j < len(text) && isWord(text[j]) {
				j++
			}
			emit(string(text[i:j]))
			i = j
		default:
			emit(string(text[i : i+1]))
			i++
		}
	}
	return toks, leads, true
}

type rdField struct {
	name, typ, label string
	number           string
	oneof            string
	mapKey, mapVal   string
	opts             []rdLeaf
	lead             string
}
type rdMessage struct {
	name   string
	fields []*rdField
	nested []*rdMessage
	enums  []*rdEnum
	oneofs []string
	opts   []rdLeaf
	lead   string
	// leading comments of oneofs (by name) and of enum values ("Enum.VALUE")
	leads map[string]string
}
type rdEnum struct {
	name   string
	values [][2]string
	opts   []rdLeaf
	lead   string
	vlead  map[string]string
}
type rdMethod struct {
	name, in, out string
	opts          []rdLeaf
	lead          string
}

// rdLeaf: one scalar of an option value, addressed by its path from the option
// name: `(pkg.ext).a.b = {c: [7, 8]}` gives "(pkg.ext)/a/b/c/0" = 7 and
// ".../c/1" = 8; an empty message or list is a leaf "{}" / "[]".
type rdLeaf struct{ path, value string }
type rdService struct {
	name    string
	methods []rdMethod
	opts    []rdLeaf
	lead    string
}
type rdFile struct {
	syntax, pkg string
	imports     []string
	extends     []*rdMessage // name = extendee, fields = extension fields
	messages    []*rdMessage
	enums       []*rdEnum
	services    []*rdService
}

type rdParser struct {
	t    []string
	lead []string
	pos  int
	ok   bool
}

// leadAt: the leading comment of the token at index i
func (p *rdParser) leadAt(i int) string {
	if i >= 0 && i < len(p.lead) {
		return p.lead[i]
	}
	return ""
}

func (p *rdParser) peek() string {
	if p.pos < len(p.t) {
		return p.t[p.pos]
	}
	return ""
}
func (p *rdParser) next() string {
	s := p.peek()
	p.pos++
	return s
}
func (p *rdParser) expect(s string) {
	if p.next() != s {
		p.ok = false
	}
}

// optName: `(full.name)` or `(full.name).sub.path`, or a plain option name
func (p *rdParser) optName() string {
	if p.peek() != "(" {
		return p.next()
	}
	p.next()
	path := "(" + p.next() + ")"
	p.expect(")")
	if w := p.peek(); len(w) > 1 && w[0] == '.' {
		p.next()
		b := []byte(w)
		for i := range b {
			if b[i] == '.' {
				b[i] = '/'
			}
		}
		path += string(b)
	}
	return path
}

// optValue: a scalar, a `{ key: value ... }` message literal or a `[v, v]` list
// in protobuf text format, flattened into leaves under path
func (p *rdParser) optValue(path string, out *[]rdLeaf) {
	switch p.peek() {
	case "{":
		p.next()
		n := 0
		for p.ok && p.peek() != "}" && p.peek() != "" {
			key := p.next()
			p.expect(":")
			p.optValue(path+"/"+key, out)
			n++
		}
		p.expect("}")
		if n == 0 {
			*out = append(*out, rdLeaf{path, "{}"})
		}
	case "[":
		p.next()
		i := 0
		for p.ok && p.peek() != "]" && p.peek() != "" {
			p.optValue(path+"/"+rdItoa(int32(i)), out)
			i++
			if p.peek() != "," {
				break
			}
			p.next()
			if p.peek() == "]" { // no trailing comma in the text format
				p.ok = false
			}
		}
		p.expect("]")
		if i == 0 {
			*out = append(*out, rdLeaf{path, "[]"})
		}
	case "", "}", "]", ",", ";", ":", "=":
		p.ok = false
	default:
		v := p.next()
		if v == "-" {
			v += p.next()
		}
		*out = append(*out, rdLeaf{path, v})
	}
}

// bracketOptions: `[name = value, name = value]` after a field or enum value
func (p *rdParser) bracketOptions() []rdLeaf {
	out := []rdLeaf{}
	p.expect("[")
	for p.ok {
		name := p.optName()
		p.expect("=")
		if p.peek() == "[" { // the proto grammar has no list constant: lists only inside { }
			p.ok = false
		}
		p.optValue(name, &out)
		if p.peek() != "," {
			break
		}
		p.next()
	}
	p.expect("]")
	return out
}

// optionStatement: `option name = value;` (the word option already consumed)
func (p *rdParser) optionStatement(out *[]rdLeaf) {
	name := p.optName()
	p.expect("=")
	if p.peek() == "[" { // the proto grammar has no list constant: lists only inside { }
		p.ok = false
	}
	p.optValue(name, out)
	p.expect(";")
}

func (p *rdParser) field(oneof string) *rdField {
	f := &rdField{oneof: oneof, lead: p.leadAt(p.pos)}
	w := p.next()
	if w == "repeated" || w == "optional" {
		f.label = w
		w = p.next()
	}
	if w == "map" {
		p.expect("<")
		f.mapKey = p.next()
		p.expect(",")
		f.mapVal = p.next()
		p.expect(">")
		f.typ = "map"
	} else {
		f.typ = w
	}
	f.name = p.next()
	p.expect("=")
	f.number = p.next()
	if p.peek() == "[" {
		f.opts = p.bracketOptions()
	}
	p.expect(";")
	return f
}

func (p *rdParser) enum() *rdEnum {
	e := &rdEnum{lead: p.leadAt(p.pos - 1), name: p.next(), vlead: map[string]string{}}
	p.expect("{")
	for p.ok && p.peek() != "}" && p.peek() != "" {
		n := p.next()
		if n == "option" {
			p.optionStatement(&e.opts)
			continue
		}
		e.vlead[n] = p.leadAt(p.pos - 1)
		p.expect("=")
		v := p.next()
		if p.peek() == "[" {
			for _, l := range p.bracketOptions() {
				e.opts = append(e.opts, rdLeaf{n + ":" + l.path, l.value})
			}
		}
		p.expect(";")
		e.values = append(e.values, [2]string{n, v})
	}
	p.expect("}")
	return e
}

func (p *rdParser) message() *rdMessage {
	m := &rdMessage{lead: p.leadAt(p.pos - 1), name: p.next(), leads: map[string]string{}}
	p.expect("{")
	for p.ok && p.peek() != "}" && p.peek() != "" {
		switch p.peek() {
		case "message":
			p.next()
			m.nested = append(m.nested, p.message())
		case "enum":
			p.next()
			m.enums = append(m.enums, p.enum())
		case "option":
			p.next()
			p.optionStatement(&m.opts)
		case "oneof":
			p.next()
			on := p.next()
			m.leads[on] = p.leadAt(p.pos - 2)
			m.oneofs = append(m.oneofs, on)
			p.expect("{")
			for p.ok && p.peek() != "}" && p.peek() != "" {
				m.fields = append(m.fields, p.field(on))
			}
			p.expect("}")
		default:
			m.fields = append(m.fields, p.field(""))
		}
	}
	p.expect("}")
	return m
}

func rdParse(text []byte) (*rdFile, bool) {
	toks, leads, ok := rdLex(text)
	if !ok {
		return nil, false
	}
	p := &rdParser{t: toks, lead: leads, ok: true}
	f := &rdFile{}
	for p.ok && p.peek() != "" {
		switch p.next() {
		case "syntax":
			p.expect("=")
			f.syntax = p.next()
			p.expect(";")
		case "package":
			f.pkg = p.next()
			p.expect(";")
		case "import":
			f.imports = append(f.imports, p.next())
			p.expect(";")
		case "extend":
			x := &rdMessage{name: p.next(), leads: map[string]string{}}
			p.expect("{")
			for p.ok && p.peek() != "}" && p.peek() != "" {
				x.fields = append(x.fields, p.field(""))
			}
			p.expect("}")
			f.extends = append(f.extends, x)
		case "message":
			f.messages = append(f.messages, p.message())
		case "enum":
			f.enums = append(f.enums, p.enum())
		case "service":
			s := &rdService{lead: p.leadAt(p.pos - 1), name: p.next()}
			p.expect("{")
			for p.ok && (p.peek() == "rpc" || p.peek() == "option") {
				if p.next() == "option" {
					p.optionStatement(&s.opts)
					continue
				}
				m := rdMethod{lead: p.leadAt(p.pos - 1), name: p.next()}
				p.expect("(")
				m.in = p.next()
				p.expect(")")
				p.expect("returns")
				p.expect("(")
				m.out = p.next()
				p.expect(")")
				p.expect("{")
				for p.ok && p.peek() == "option" {
					p.next()
					p.optionStatement(&m.opts)
				}
				p.expect("}")
				s.methods = append(s.methods, m)
			}
			p.expect("}")
			f.services = append(f.services, s)
		default:
			p.ok = false
		}
	}
	return f, p.ok
}

var rdKindName = map[descriptorpb.FieldDescriptorProto_Type]string{
	descriptorpb.FieldDescriptorProto_TYPE_STRING: "string", descriptorpb.FieldDescriptorProto_TYPE_INT32: "int32",
	descriptorpb.FieldDescriptorProto_TYPE_INT64: "int64", descriptorpb.FieldDescriptorProto_TYPE_BOOL: "bool",
	descriptorpb.FieldDescriptorProto_TYPE_BYTES: "bytes", descriptorpb.FieldDescriptorProto_TYPE_UINT32: "uint32",
	descriptorpb.FieldDescriptorProto_TYPE_UINT64: "uint64", descriptorpb.FieldDescriptorProto_TYPE_DOUBLE: "double",
	descriptorpb.FieldDescriptorProto_TYPE_FLOAT: "float",
}

func rdItoa(v int32) string {
	if v == 0 {
		return "0"
	}
	s := ""
	for v > 0 {
		s = string(rune('0'+v%10)) + s
		v /= 10
	}
	return s
}

// rdWantLead: the leading comment the descriptor records for exactly this path
func rdWantLead(fdp *descriptorpb.FileDescriptorProto, base []int32, more ...int32) string {
	path := append(append([]int32{}, base...), more...)
	for _, loc := range fdp.GetSourceCodeInfo().GetLocation() {
		if len(loc.Path) != len(path) {
			continue
		}
		same := true
		for i := range path {
			if loc.Path[i] != path[i] {
				same = false
			}
		}
		if same {
			return loc.GetLeadingComments()
		}
	}
	return ""
}

// rdCheckMessage: the read-back message against the printed descriptor
func rdCheckMessage(u *j5schema.VerifUniverse, want *j5schema.VerifMessage, dp *descriptorpb.DescriptorProto, got *rdMessage, tag string, fdp *descriptorpb.FileDescriptorProto, path []int32) {
	verifAssert(got.lead == rdWantLead(fdp, path), "message-leading-comment"+tag)
	for o, od := range dp.OneofDecl {
		if l, printed := got.leads[od.GetName()]; printed {
			verifAssert(l == rdWantLead(fdp, path, 8, int32(o)), "oneof-leading-comment"+tag)
		}
	}
	// fields by number
	declared := 0
	for fi, fd := range dp.Field {
		declared++
		var g *rdField
		for _, c := range got.fields {
			if c.number == rdItoa(fd.GetNumber()) {
				g = c
			}
		}
		verifAssert(g != nil, "field-printed"+tag)
		if g == nil {
			continue
		}
		verifAssert(g.name == fd.GetName(), "field-name"+tag)
		verifAssert(g.lead == rdWantLead(fdp, path, 2, int32(fi)), "field-leading-comment"+tag)
		// label
		wantLabel := ""
		isMapField := false
		if fd.GetLabel() == descriptorpb.FieldDescriptorProto_LABEL_REPEATED {
			wantLabel = "repeated"
			if fd.GetType() == descriptorpb.FieldDescriptorProto_TYPE_MESSAGE {
				if em, _ := u.VerifResolveFrom(fd.GetTypeName(), want); em != nil && em.IsMapEntry() {
					isMapField = true
					wantLabel = ""
				}
			}
		}
		if fd.GetProto3Optional() {
			wantLabel = "optional"
		}
		verifAssert(g.label == wantLabel, "field-label"+tag)
		// oneof membership (synthetic oneofs of proto3 optional fields are not printed)
		wantOneof := ""
		if fd.OneofIndex != nil && !fd.GetProto3Optional() {
			wantOneof = dp.OneofDecl[fd.GetOneofIndex()].GetName()
		}
		verifAssert(g.oneof == wantOneof, "field-oneof-membership"+tag)
		// type
		switch {
		case isMapField:
			verifAssert(g.typ == "map" && g.mapKey == "string", "map-field-printed-as-map"+tag)
		case fd.GetType() == descriptorpb.FieldDescriptorProto_TYPE_MESSAGE || fd.GetType() == descriptorpb.FieldDescriptorProto_TYPE_ENUM:
			wm, we := u.VerifResolveFrom(fd.GetTypeName(), want)
			gm, ge := u.VerifResolveFrom(g.typ, want)
			if wm != nil {
				verifAssert(gm == wm, "message-type-name-resolves-to-the-same-type"+tag)
			} else {
				verifAssert(ge == we && ge != nil, "enum-type-name-resolves-to-the-same-type"+tag)
			}
		default:
			verifAssert(g.typ == rdKindName[fd.GetType()], "scalar-type"+tag)
		}
	}
	verifAssert(len(got.fields) == declared, "no-extra-fields"+tag)
	// nested messages (map entries are not printed) and enums
	printedNested := 0
	for i, nd := range dp.NestedType {
		if nd.GetOptions().GetMapEntry() {
			continue
		}
		printedNested++
		var g *rdMessage
		for _, c := range got.nested {
			if c.name == nd.GetName() {
				g = c
			}
		}
		verifAssert(g != nil, "nested-message-printed"+tag)
		if g != nil {
			rdCheckMessage(u, want.VerifNested(i), nd, g, tag, fdp, append(append([]int32{}, path...), 3, int32(i)))
		}
	}
	verifAssert(len(got.nested) == printedNested, "no-extra-nested-messages"+tag)
	verifAssert(len(got.enums) == len(dp.EnumType), "nested-enums-printed"+tag)
	for i, ed := range dp.EnumType {
		if i < len(got.enums) {
			rdCheckEnum(ed, got.enums, tag, fdp, append(append([]int32{}, path...), 4, int32(i)))
		}
	}
}

func rdCheckEnum(ed *descriptorpb.EnumDescriptorProto, got []*rdEnum, tag string, fdp *descriptorpb.FileDescriptorProto, path []int32) {
	var g *rdEnum
	for _, c := range got {
		if c.name == ed.GetName() {
			g = c
		}
	}
	verifAssert(g != nil, "enum-printed"+tag)
	if g == nil {
		return
	}
	verifAssert(g.lead == rdWantLead(fdp, path), "enum-leading-comment"+tag)
	verifAssert(len(g.values) == len(ed.Value), "enum-value-count"+tag)
	for vi, v := range ed.Value {
		verifAssert(g.vlead[v.GetName()] == rdWantLead(fdp, path, 2, int32(vi)), "enum-value-leading-comment"+tag)
		found := false
		for _, gv := range g.values {
			if gv[0] == v.GetName() && gv[1] == rdItoa(v.GetNumber()) {
				found = true
			}
		}
		verifAssert(found, "enum-value-name-and-number"+tag)
	}
}

func HarnessPrintFileReadBack() {
	fdp := verifPrintableFile()
	u := j5schema.VerifNewUniverse(fdp)
	var file protoreflect.FileDescriptor = u.Files[0]
	if verifNative() {
		// native replay: print the protobuf-go runtime's own descriptor of the same file
		real, err := protodesc.FileOptions{AllowUnresolvable: true}.New(fdp, protoregistry.GlobalFiles)
		if err != nil {
			verifAssume(false) // a harness problem, not a finding
		}
		file = real
	}
	verifTermBudget(6000000)
	text, err := printFile(file, "generated")
	verifEndTermBudget()
	verifAssert(err == nil, "printable-file-printed")
	if err != nil {
		return
	}
	got, ok := rdParse(text)
	verifAssert(ok && got != nil, "printed-text-is-in-the-proto3-subset")
	if !ok || got == nil {
		return
	}
	verifAssert(got.syntax == "\"proto3\"" && got.pkg == fdp.GetPackage(), "syntax-and-package")
	verifAssert(len(got.imports) == len(fdp.Dependency), "every-import-printed-once")
	for _, dep := range fdp.Dependency {
		found := false
		for _, gi := range got.imports {
			if gi == "\""+dep+"\"" {
				found = true
			}
		}
		verifAssert(found, "import-printed")
	}
	// extensions: each declared once, under its extendee, with its number
	n := 0
	for _, x := range got.extends {
		n += len(x.fields)
	}
	verifAssert(n == len(fdp.Extension), "every-extension-printed-once")
	for xi, xd := range fdp.Extension {
		found := false
		for _, x := range got.extends {
			for _, xf := range x.fields {
				if "."+x.name == xd.GetExtendee() && xf.name == xd.GetName() && xf.number == rdItoa(xd.GetNumber()) {
					found = true
					verifAssert(xf.lead == rdWantLead(fdp, []int32{7, int32(xi)}), "extension-leading-comment")
				}
			}
		}
		verifAssert(found, "extension-under-its-extendee")
	}
	verifAssert(len(got.messages) == len(fdp.MessageType), "top-level-message-count")
	for i, md := range fdp.MessageType {
		var g *rdMessage
		for _, c := range got.messages {
			if c.name == md.GetName() {
				g = c
			}
		}
		verifAssert(g != nil, "top-level-message-printed")
		if g != nil {
			rdCheckMessage(u, u.Files[0].Message(i), md, g, ":"+md.GetName(), fdp, []int32{4, int32(i)})
		}
	}
	verifAssert(len(got.enums) == len(fdp.EnumType), "top-level-enum-count")
	for ei, ed := range fdp.EnumType {
		rdCheckEnum(ed, got.enums, ":"+ed.GetName(), fdp, []int32{5, int32(ei)})
	}
	verifAssert(len(got.services) == len(fdp.Service), "service-count")
	for si, sd := range fdp.Service {
		for _, gs := range got.services {
			if gs.name != sd.GetName() {
				continue
			}
			verifAssert(gs.lead == rdWantLead(fdp, []int32{6, int32(si)}), "service-leading-comment")
			verifAssert(len(gs.methods) == len(sd.Method), "method-count")
			for k, md := range sd.Method {
				if k < len(gs.methods) {
					gm := gs.methods[k]
					verifAssert(gm.name == md.GetName(), "method-name")
					verifAssert(gm.lead == rdWantLead(fdp, []int32{6, int32(si), 2, int32(k)}), "method-leading-comment")
					wi, _ := u.VerifResolveFrom(md.GetInputType(), u.VerifPackageScope(0))
					gi, _ := u.VerifResolveFrom(gm.in, u.VerifPackageScope(0))
					wo, _ := u.VerifResolveFrom(md.GetOutputType(), u.VerifPackageScope(0))
					gout, _ := u.VerifResolveFrom(gm.out, u.VerifPackageScope(0))
					verifAssert(wi != nil && gi == wi && wo != nil && gout == wo, "method-input-and-output-types")
				}
			}
		}
	}
}
