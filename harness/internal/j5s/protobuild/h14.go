package protobuild

import "context"

// C14 (file listing): which files make up a package must not depend on the
// order in which the file source lists them, nor on generated outputs
// (X.j5s.proto, written next to X.j5s by an earlier run) still lying around:
// both would compile to the same output name and the later one would win.

type verifFileSource struct {
	files []string
}

func (s verifFileSource) GetLocalFile(context.Context, string) ([]byte, error) { return nil, nil }
func (s verifFileSource) ListPackages() []string                               { return []string{"foo.v1"} }
func (s verifFileSource) ListSourceFiles(ctx context.Context, pkgName string) ([]string, error) {
	return s.files, nil
}

func HarnessListPackageFiles() {
	all := []string{"foo/v1/thing.j5s", "foo/v1/thing.j5s.proto", "foo/v1/hand.proto", "foo/v1/service/other.proto"}
	// any subset, in any order
	present := []string{}
	for _, f := range all {
		if ndBool("listed") {
			present = append(present, f)
		}
	}
	listing := []string{}
	left := append([]string{}, present...)
	for len(left) > 0 {
		i := ndChoice("next", len(left))
		listing = append(listing, left[i])
		left = append(left[:i], left[i+1:]...)
	}
	sr := &sourceResolver{bundleFiles: verifFileSource{files: listing}}
	got, err := sr.listPackageFiles(context.Background(), "foo.v1")
	verifAssert(err == nil, "listing-succeeds")
	if err != nil {
		return
	}
	want := 0
	for _, f := range present {
		if f == "foo/v1/thing.j5s" || f == "foo/v1/hand.proto" {
			want++
			found := false
			for _, g := range got {
				if g == f {
					found = true
				}
			}
			verifAssert(found, "source-file-of-the-package-included")
		}
	}
	verifAssert(len(got) == want, "generated-outputs-and-other-directories-excluded")
}
