package codec

import (
	"bytes"
	"encoding/json"
	"errors"
	"strconv"

	"github.com/pentops/j5/gen/j5/schema/v1/schema_j5pb"
	"github.com/pentops/j5/j5types/date_j5t"
	"github.com/pentops/j5/lib/j5reflect"
	"github.com/pentops/j5/lib/j5schema"
	"google.golang.org/protobuf/reflect/protoreflect"
)

// ---------- reference models written for the harness ----------

// RFC 3629 UTF-8 validator
func refValidUTF8(b []byte) bool {
	i := 0
	for i < len(b) {
		c := b[i]
		switch {
		case c < 0x80:
			i++
		case c >= 0xC2 && c <= 0xDF:
			if i+1 >= len(b) || b[i+1]&0xC0 != 0x80 {
				return false
			}
			i += 2
		case c >= 0xE0 && c <= 0xEF:
			if i+2 >= len(b) {
				return false
			}
			lo, hi := byte(0x80), byte(0xBF)
			if c == 0xE0 {
				lo = 0xA0
			}
			if c == 0xED {
				hi = 0x9F
			}
			if b[i+1] < lo || b[i+1] > hi || b[i+2]&0xC0 != 0x80 {
				return false
			}
			i += 3
		case c >= 0xF0 && c <= 0xF4:
			if i+3 >= len(b) {
				return false
			}
			lo, hi := byte(0x80), byte(0xBF)
			if c == 0xF0 {
				lo = 0x90
			}
			if c == 0xF4 {
				hi = 0x8F
			}
			if b[i+1] < lo || b[i+1] > hi || b[i+2]&0xC0 != 0x80 || b[i+3]&0xC0 != 0x80 {
				return false
			}
			i += 4
		default:
			return false
		}
	}
	return true
}

func refHex(c byte) (byte, bool) {
	switch {
	case c >= '0' && c <= '9':
		return c - '0', true
	case c >= 'a' && c <= 'f':
		return c - 'a' + 10, true
	case c >= 'A' && c <= 'F':
		return c - 'A' + 10, true
	}
	return 0, false
}

// RFC 8259 string literal -> bytes (\u escapes only for code points < 0x80,
// which is all this encoder may use them for)
func refJSONUnquote(b []byte) ([]byte, bool) {
	if len(b) < 2 || b[0] != '"' || b[len(b)-1] != '"' {
		return nil, false
	}
	b = b[1 : len(b)-1]
	out := []byte{}
	i := 0
	for i < len(b) {
		c := b[i]
		if c < 0x20 || c == '"' {
			return nil, false
		}
		if c != '\\' {
			out = append(out, c)
			i++
			continue
		}
		if i+1 >= len(b) {
			return nil, false
		}
		switch b[i+1] {
		case '"', '\\', '/':
			out = append(out, b[i+1])
		case 'b':
			out = append(out, '\b')
		case 'f':
			out = append(out, '\f')
		case 'n':
			out = append(out, '\n')
		case 'r':
			out = append(out, '\r')
		case 't':
			out = append(out, '\t')
		case 'u':
			if i+5 >= len(b) {
				return nil, false
			}
			var v uint16
			for k := 2; k < 6; k++ {
				h, ok := refHex(b[i+k])
				if !ok {
					return nil, false
				}
				v = v<<4 | uint16(h)
			}
			if v >= 0x80 {
				return nil, false
			}
			out = append(out, byte(v))
			i += 6
			continue
		default:
			return nil, false
		}
		i += 2
	}
	return out, true
}

// refIntegerLiteral: JSON integer grammar -?(0|[1-9][0-9]*)
func refIntegerLiteral(b []byte) bool {
	i := 0
	if i < len(b) && b[i] == '-' {
		i++
	}
	if i >= len(b) {
		return false
	}
	if b[i] == '0' {
		return i+1 == len(b)
	}
	ok := b[i] >= '1' && b[i] <= '9'
	for k := i + 1; k < len(b); k++ {
		ok = verifAll(ok, b[k] >= '0', b[k] <= '9')
	}
	return ok
}

// refToken: the contract of json.Decoder.Token (UseNumber) for one scalar
// document: string | bool | json.Number; ok=false when not a JSON scalar.
func refToken(b []byte) (interface{}, bool) {
	if len(b) == 0 {
		return nil, false
	}
	if b[0] == '"' {
		s, ok := refJSONUnquote(b)
		if !ok {
			return nil, false
		}
		return string(s), true
	}
	if string(b) == "true" {
		return true, true
	}
	if string(b) == "false" {
		return false, true
	}
	if refIntegerLiteral(b) {
		return json.Number(string(b)), true
	}
	return nil, false
}

const refB64 = "ABCDEFGHIJKLMNOPQRSTUVWXYZabcdefghijklmnopqrstuvwxyz0123456789+/"

// padded standard base64 (RFC 4648 §4)
func refBase64(in []byte) string {
	out := []byte{}
	for i := 0; i < len(in); i += 3 {
		var b0, b1, b2 byte
		n := len(in) - i
		b0 = in[i]
		if n > 1 {
			b1 = in[i+1]
		}
		if n > 2 {
			b2 = in[i+2]
		}
		out = append(out, refB64[b0>>2], refB64[(b0&3)<<4|b1>>4])
		if n > 1 {
			out = append(out, refB64[(b1&15)<<2|b2>>6])
		} else {
			out = append(out, '=')
		}
		if n > 2 {
			out = append(out, refB64[b2&63])
		} else {
			out = append(out, '=')
		}
	}
	return string(out)
}

func refPad(v int32, width int) string {
	out := make([]byte, width)
	u := uint32(v)
	for k := width - 1; k >= 0; k-- {
		out[k] = '0' + byte(u%10)
		u /= 10
	}
	return string(out)
}

// ---------- schema / value generators ----------

const (
	kBool = iota
	kString
	kKey
	kInt32
	kInt64
	kUint32
	kUint64
	kBytes
	kDate
	kKinds
)

var verifKindName = []string{"bool", "string", "key", "int32", "int64", "uint32", "uint64", "bytes", "date"}

func verifSchema(kind int) *schema_j5pb.Field {
	integer := func(f schema_j5pb.IntegerField_Format) *schema_j5pb.Field {
		return &schema_j5pb.Field{Type: &schema_j5pb.Field_Integer{Integer: &schema_j5pb.IntegerField{Format: f}}}
	}
	switch kind {
	case kBool:
		return &schema_j5pb.Field{Type: &schema_j5pb.Field_Bool{Bool: &schema_j5pb.BoolField{}}}
	case kString:
		return &schema_j5pb.Field{Type: &schema_j5pb.Field_String_{String_: &schema_j5pb.StringField{}}}
	case kKey:
		return &schema_j5pb.Field{Type: &schema_j5pb.Field_Key{Key: &schema_j5pb.KeyField{}}}
	case kInt32:
		return integer(schema_j5pb.IntegerField_FORMAT_INT32)
	case kInt64:
		return integer(schema_j5pb.IntegerField_FORMAT_INT64)
	case kUint32:
		return integer(schema_j5pb.IntegerField_FORMAT_UINT32)
	case kUint64:
		return integer(schema_j5pb.IntegerField_FORMAT_UINT64)
	case kBytes:
		return &schema_j5pb.Field{Type: &schema_j5pb.Field_Bytes{Bytes: &schema_j5pb.BytesField{}}}
	case kDate:
		return &schema_j5pb.Field{Type: &schema_j5pb.Field_Date{Date: &schema_j5pb.DateField{}}}
	}
	return nil
}

func verifBytes(name string, max int) []byte {
	n := ndIntRange(name+"Len", 0, max)
	b := make([]byte, n)
	for i := range b {
		b[i] = ndByte(name)
	}
	return b
}

func verifKindChoice() int {
	kind := ndChoice("kind", kKinds)
	if only := verifParam("kind", -1); only >= 0 && only != kind {
		return -1
	}
	return kind
}

// ---------- H01a / H08b: encode one scalar, tokenise, decode, compare ----------

func HarnessScalarRoundTrip() {
	kind := verifKindChoice()
	if kind < 0 {
		return
	}
	tag := ":" + verifKindName[kind]
	schema := verifSchema(kind)
	sf, cell := j5reflect.VerifNewScalar(schema)
	var (
		vBool         bool
		vStr          []byte
		vI32          int32
		vI64          int64
		vU32          uint32
		vU64          uint64
		vY, vM, vD    int32
		representable = true
	)
	switch kind {
	case kBool:
		vBool = ndBool("v")
		cell.Val = protoreflect.ValueOfBool(vBool)
	case kString, kKey:
		vStr = verifBytes("s", verifParam("S", 3))
		representable = refValidUTF8(vStr)
		cell.Val = protoreflect.ValueOfString(string(vStr))
	case kInt32:
		vI32 = ndInt32("v")
		cell.Val = protoreflect.ValueOfInt32(vI32)
	case kInt64:
		vI64 = ndInt64("v")
		cell.Val = protoreflect.ValueOfInt64(vI64)
	case kUint32:
		vU32 = ndUint32("v")
		cell.Val = protoreflect.ValueOfUint32(vU32)
	case kUint64:
		vU64 = ndUint64("v")
		cell.Val = protoreflect.ValueOfUint64(vU64)
	case kBytes:
		vStr = verifBytes("b", verifParam("B", 3))
		cell.Val = protoreflect.ValueOfBytes(vStr)
	case kDate:
		vY, vM, vD = ndInt32("y"), ndInt32("m"), ndInt32("d")
		verifAssume(vY >= 1)
		verifAssume(vY <= 9999)
		verifAssume(vM >= 1)
		verifAssume(vM <= 12)
		verifAssume(vD >= 1)
		verifAssume(vD <= 31)
		cell.Val = protoreflect.ValueOfMessage((&date_j5t.Date{Year: vY, Month: vM, Day: vD}).ProtoReflect())
	}
	cell.IsSet = true

	enc := &encoder{b: &bytes.Buffer{}}
	err := enc.encodeScalarField(sf)
	if !representable {
		// C08: for values outside the wire format the encoder must fail (or still emit valid JSON)
		if err == nil {
			_, ok := refToken(enc.b.Bytes())
			verifAssert(ok, "unrepresentable-value-still-valid-json"+tag)
		}
		return
	}
	verifAssert(err == nil, "encode-succeeds"+tag)
	if err != nil {
		return
	}
	out := enc.b.Bytes()
	tok, ok := refToken(out)
	verifAssert(ok, "encoded-scalar-is-one-json-token"+tag)
	if !ok {
		return
	}
	// C08: documented representation per kind
	switch kind {
	case kBool:
		_, isBool := tok.(bool)
		verifAssert(isBool, "bool-is-bare-literal")
	case kInt32, kUint32:
		_, isNum := tok.(json.Number)
		verifAssert(isNum, "32-bit-integer-is-bare-number"+tag)
	case kInt64, kUint64:
		s, isStr := tok.(string)
		verifAssert(isStr, "64-bit-integer-is-quoted"+tag)
		if isStr {
			verifAssert(refIntegerLiteral([]byte(s)), "64-bit-integer-is-a-decimal-numeral"+tag)
		}
	case kString, kKey:
		s, isStr := tok.(string)
		verifAssert(isStr && s == string(vStr), "string-is-quoted-and-exact"+tag)
	case kBytes:
		s, isStr := tok.(string)
		verifAssert(isStr && s == refBase64(vStr), "bytes-are-padded-standard-base64")
	case kDate:
		s, isStr := tok.(string)
		verifAssert(isStr && s == refPad(vY, 4)+"-"+refPad(vM, 2)+"-"+refPad(vD, 2), "date-is-zero-padded-YYYY-MM-DD")
	}

	// C01: decode what was encoded
	sf2, cell2 := j5reflect.VerifNewScalar(schema)
	derr := sf2.SetGoValue(tok)
	verifAssert(derr == nil, "decode-succeeds"+tag)
	if derr != nil {
		return
	}
	verifAssert(cell2.IsSet, "decoded-value-is-stored"+tag)
	if !cell2.IsSet {
		return
	}
	got := cell2.Val
	switch kind {
	case kBool:
		verifAssert(got.Bool() == vBool, "roundtrip"+tag)
	case kString, kKey:
		verifAssert(got.String() == string(vStr), "roundtrip"+tag)
	case kInt32:
		verifAssert(int32(got.Int()) == vI32, "roundtrip"+tag)
	case kInt64:
		verifAssert(got.Int() == vI64, "roundtrip"+tag)
	case kUint32:
		verifAssert(uint32(got.Uint()) == vU32, "roundtrip"+tag)
	case kUint64:
		verifAssert(got.Uint() == vU64, "roundtrip"+tag)
	case kBytes:
		verifAssert(string(got.Bytes()) == string(vStr), "roundtrip"+tag)
	case kDate:
		d, isDate := got.Message().Interface().(*date_j5t.Date)
		verifAssert(isDate && d.Year == vY && d.Month == vM && d.Day == vD, "roundtrip"+tag)
	}
}

// ---------- H08a: string escaping ----------

func HarnessAppendString() {
	in := verifBytes("b", verifParam("S", 3))
	out, err := appendString(nil, string(in))
	if !refValidUTF8(in) {
		verifAssert(err != nil, "invalid-utf8-rejected")
		return
	}
	verifAssert(err == nil, "valid-accepted")
	dec, ok := refJSONUnquote(out)
	verifAssert(ok, "well-formed")
	if ok {
		verifAssert(string(dec) == string(in), "unescapes-to-input")
	}
}

// ---------- H03a: every scalar token against every schema kind ----------

func refDigit(c byte) bool { return c >= '0' && c <= '9' }

// refParseDecimal: value of an optionally signed run of decimal digits as a
// 128-bit-safe pair (hi part only tracks overflow beyond 64 bits for the short
// strings used here, which cannot overflow).
func refParseDecimal(s string) (neg bool, mag uint64, ok bool) {
	i := 0
	if len(s) > 0 && (s[0] == '-' || s[0] == '+') {
		neg = s[0] == '-'
		i = 1
	}
	if i >= len(s) {
		return false, 0, false
	}
	ok = true
	for ; i < len(s); i++ {
		ok = verifAll(ok, refDigit(s[i]))
		mag = mag*10 + uint64(s[i]-'0')
	}
	return neg, mag, ok
}

const (
	tNil = iota
	tBool
	tString
	tNumber
	tKinds
	// full-range numerals, only used by HarnessNumeralToken
)

func HarnessScalarToken() {
	kind := verifKindChoice()
	if kind < 0 {
		return
	}
	tag := ":" + verifKindName[kind]
	schema := verifSchema(kind)
	sf, cell := j5reflect.VerifNewScalar(schema)
	var tok interface{}
	tkind := ndChoice("token", tKinds)
	var text string
	var b bool
	switch tkind {
	case tNil:
		tok = nil
	case tBool:
		b = ndBool("b")
		tok = b
	case tString:
		text = string(verifBytes("t", verifParam("T", 3)))
		tok = text
	case tNumber:
		// a json.Number is whatever the JSON scanner accepted as a number; the
		// integer subset is exact here, the rest of the grammar (fractions,
		// exponents) must not be accepted by integer fields either
		text = string(verifBytes("t", verifParam("T", 3)))
		verifAssume(len(text) > 0)
		for i := 0; i < len(text); i++ {
			c := text[i]
			verifAssume(verifAny(refDigit(c), c == '-', c == '.', c == 'e', c == 'E', c == '+'))
		}
		tok = json.Number(text)
	}
	err := sf.SetGoValue(tok)
	if tkind == tNil {
		verifAssert(err != nil || !cell.IsSet, "null-stores-nothing"+tag)
		return
	}
	if err != nil {
		verifReach("rejected" + tag)
		// alternate spellings of representable values must not be rejected
		switch kind {
		case kInt32, kInt64, kUint32, kUint64:
			if tkind == tString || tkind == tNumber {
				neg, mag, ok := refParseDecimal(text)
				plainInt := ok && refIntegerLiteral([]byte(text))
				if plainInt {
					fits := false
					switch kind {
					case kInt32:
						fits = (!neg && mag <= 1<<31-1) || (neg && mag <= 1<<31)
					case kInt64:
						fits = true // at most 3 digits here
					case kUint32, kUint64:
						fits = !neg // "-0" is not a documented spelling: either verdict is accepted
					}
					verifAssert(!fits, "representable-integer-spelling-accepted"+tag)
				}
			}
		case kBool:
			verifAssert(tkind != tBool, "bool-accepted")
		case kString, kKey:
			verifAssert(tkind != tString, "string-accepted"+tag)
		}
		return
	}
	// success: the member must be stored with exactly the value it denotes
	verifAssert(cell.IsSet, "accepted-token-is-stored"+tag)
	if !cell.IsSet {
		return
	}
	got := cell.Val
	switch kind {
	case kBool:
		verifAssert(tkind == tBool && got.Bool() == b, "bool-exact")
	case kString, kKey:
		verifAssert(tkind == tString && got.String() == text, "string-exact"+tag)
	case kInt32, kInt64, kUint32, kUint64:
		verifAssert(tkind == tString || tkind == tNumber, "integer-from-text-only"+tag)
		neg, mag, ok := refParseDecimal(text)
		verifAssert(ok, "integer-text-is-decimal"+tag)
		if ok {
			var want int64 = int64(mag)
			if neg {
				want = -want
			}
			switch kind {
			case kInt32, kInt64:
				verifAssert(got.Int() == want, "integer-exact"+tag)
			default:
				verifAssert(!neg || mag == 0, "unsigned-not-negative"+tag)
				verifAssert(got.Uint() == mag, "integer-exact"+tag)
			}
		}
	case kBytes:
		verifAssert(tkind == tString, "bytes-from-string-only")
	case kDate:
		// no date fits in the short texts drawn here (HarnessDateToken covers dates);
		// reaching this point with a non-string token would be a silent coercion
		if tkind != tString {
			verifFail("date-from-string-only")
		}
	}
}

// ---------- H03b: base64 spellings ----------

const refB64URL = "ABCDEFGHIJKLMNOPQRSTUVWXYZabcdefghijklmnopqrstuvwxyz0123456789-_"

func HarnessBase64Spellings() {
	payload := verifBytes("p", verifParam("B", 3))
	std := refBase64(payload)
	spelling := ndChoice("spelling", 4)
	s := []byte(std)
	if spelling&1 == 1 { // URL alphabet
		for i := range s {
			if s[i] == '+' {
				s[i] = '-'
			}
			if s[i] == '/' {
				s[i] = '_'
			}
		}
	}
	if spelling&2 == 2 { // unpadded
		for len(s) > 0 && s[len(s)-1] == '=' {
			s = s[:len(s)-1]
		}
	}
	sf, cell := j5reflect.VerifNewScalar(verifSchema(kBytes))
	err := sf.SetGoValue(string(s))
	verifAssert(err == nil, "spelling-accepted")
	if err == nil {
		verifAssert(cell.IsSet && string(cell.Val.Bytes()) == string(payload), "spelling-decodes-to-payload")
	}
}

// a character outside both alphabets is rejected
func HarnessBase64Invalid() {
	n := ndIntRange("n", 1, verifParam("T", 3))
	s := make([]byte, n)
	bad := false
	for i := range s {
		c := ndByte("c")
		s[i] = c
		inAlpha := verifAny(c >= 'A' && c <= 'Z', c >= 'a' && c <= 'z', c >= '0' && c <= '9', c == '+', c == '/', c == '-', c == '_', c == '=', c == '\n', c == '\r') // Go's decoder skips CR and LF
		if !inAlpha {
			bad = true
		}
	}
	sf, cell := j5reflect.VerifNewScalar(verifSchema(kBytes))
	err := sf.SetGoValue(string(s))
	if bad {
		verifAssert(err != nil, "invalid-base64-rejected")
	}
	if err == nil {
		verifAssert(cell.IsSet, "accepted-bytes-stored")
	}
}

// HarnessBase64Padding: padding faults. The text is drawn over a small
// alphabet (data characters, '=', LF) so that every arrangement of padding up
// to P characters occurs.
func HarnessBase64Padding() {
	n := ndIntRange("n", 1, verifParam("P", 6))
	s := make([]byte, n)
	for i := range s {
		s[i] = []byte{'Q', 'U', '=', '\n', '-'}[ndChoice("c", 5)]
	}
	bad := false
	// padding faults: '=' anywhere but at the end, more '=' than the last group
	// can take, or a last group of a single character (CR and LF are skipped by
	// the decoder and not counted). Too little padding is the documented
	// "without padding" spelling.
	data := []byte{}
	for _, c := range s {
		if c != '\n' && c != '\r' {
			data = append(data, c)
		}
	}
	p := 0
	for len(data) > 0 && data[len(data)-1] == '=' {
		data = data[:len(data)-1]
		p++
	}
	for _, c := range data {
		if c == '=' {
			bad = true
		}
	}
	switch len(data) % 4 {
	case 0:
		if p > 0 && len(data) > 0 {
			bad = true
		}
	case 1:
		bad = true
	case 2:
		if p > 2 {
			bad = true
		}
	case 3:
		if p > 1 {
			bad = true
		}
	}
	if len(data) == 0 && p > 0 {
		return // only padding: not specified
	}
	sf, cell := j5reflect.VerifNewScalar(verifSchema(kBytes))
	err := sf.SetGoValue(string(s))
	if bad {
		verifAssert(err != nil, "faulty-padding-rejected")
	}
	if err == nil {
		verifAssert(cell.IsSet, "accepted-bytes-stored")
	}
}

// ---------- H03 dates ----------

func HarnessDateToken() {
	// canonical-shaped token with symbolic digits
	d := make([]byte, 8)
	for i := range d {
		d[i] = '0' + ndByte("d")%10
	}
	text := string(d[0:4]) + "-" + string(d[4:6]) + "-" + string(d[6:8])
	year := int32(d[0]-'0')*1000 + int32(d[1]-'0')*100 + int32(d[2]-'0')*10 + int32(d[3]-'0')
	month := int32(d[4]-'0')*10 + int32(d[5]-'0')
	day := int32(d[6]-'0')*10 + int32(d[7]-'0')
	sf, cell := j5reflect.VerifNewScalar(verifSchema(kDate))
	err := sf.SetGoValue(text)
	valid := verifAll(month >= 1, month <= 12, day >= 1, day <= 31)
	if year == 0 {
		return // year 0000 is outside the documented range 0001-9999; either verdict is accepted
	}
	if err != nil {
		verifAssert(!valid, "valid-date-accepted")
		return
	}
	verifAssert(valid, "invalid-date-rejected")
	verifAssert(cell.IsSet, "accepted-date-stored")
	if cell.IsSet {
		got, isDate := cell.Val.Message().Interface().(*date_j5t.Date)
		verifAssert(isDate && got.Year == year && got.Month == month && got.Day == day, "date-exact")
	}
}

// ---------- H03c: enum names ----------

func verifNameChar(name string) byte {
	c := ndByte(name)
	verifAssume(verifAny(verifAll(c >= 'A', c <= 'Z'), c == '_'))
	return c
}

func HarnessEnumNames() {
	// options: prefix "P_" and short names UNSPECIFIED, n1 (three symbolic
	// characters of A-Z and _, so a short name may itself start with the
	// prefix), n2 (one letter), declared in either order
	n1b := []byte{verifNameChar("n"), verifNameChar("n"), verifNameChar("n")}
	verifAssume(n1b[0] != '_')
	verifAssume(n1b[2] != '_')
	n2b := []byte{verifNameChar("n")}
	verifAssume(n2b[0] != '_')
	n1, n2 := string(n1b), string(n2b)
	names := []string{"UNSPECIFIED", n1, n2}
	if ndBool("oneLetterNameDeclaredFirst") {
		names = []string{"UNSPECIFIED", n2, n1}
	}
	es := j5reflectEnum("P_", names)
	ef, cell := j5reflect.VerifNewEnum(es)
	text := string(verifBytes("t", verifParam("T", 4)))
	err := ef.SetFromString(text)
	// the canonical spelling is the short name; the prefixed spelling is the
	// documented alternative. The canonical one wins where both apply to
	// different options (otherwise the encoder's own output would not come back)
	want := int32(-1)
	for i, nm := range names {
		if want < 0 && text == nm {
			want = int32(i)
		}
	}
	if want < 0 && len(text) >= 2 && text[:2] == "P_" {
		for i, nm := range names {
			if want < 0 && text[2:] == nm {
				want = int32(i)
			}
		}
	}
	if want < 0 {
		verifAssert(err != nil, "unknown-enum-name-rejected")
		return
	}
	verifAssert(err == nil, "known-enum-name-accepted")
	if err == nil {
		verifAssert(cell.IsSet && int32(cell.Val.Enum()) == want, "enum-number-exact")
	}
}

// ---------- H06a: arrays and maps of scalars never panic on any token ----------

func verifAnyToken() interface{} {
	switch ndChoice("token", tKinds) {
	case tNil:
		return nil
	case tBool:
		return ndBool("b")
	case tString:
		return string(verifBytes("t", verifParam("T", 2)))
	}
	text := string(verifBytes("t", verifParam("T", 2)))
	return json.Number(text)
}

func HarnessLeafContainersTotal() {
	kind := verifKindChoice()
	if kind < 0 {
		return
	}
	tag := ":" + verifKindName[kind]
	tok := verifAnyToken()
	switch ndChoice("container", 4) {
	case 0:
		arr, list := j5reflect.VerifNewScalarArray(verifSchema(kind))
		_, err := arr.AppendGoValue(tok)
		if err == nil {
			verifAssert(tok == nil || list.Len() == 1, "array-accepted-token-is-stored"+tag)
		}
	case 1:
		m, pm := j5reflect.VerifNewScalarMap(verifSchema(kind))
		err := m.SetGoValue("k", tok)
		if err == nil {
			verifAssert(tok == nil || pm.Len() == 1, "map-accepted-token-is-stored"+tag)
		}
	case 2:
		sf, cell := j5reflect.VerifNewScalar(verifSchema(kind))
		err := sf.SetGoValue(tok)
		if err == nil && tok != nil {
			verifAssert(cell.IsSet, "scalar-accepted-token-is-stored"+tag)
		}
	case 3:
		es := j5reflectEnum("P_", []string{"UNSPECIFIED", "A"})
		arr, _ := j5reflect.VerifNewEnumArray(es)
		_, _ = arr.AppendGoValue(tok)
		ef, _ := j5reflect.VerifNewEnum(es)
		if sc, ok := ef.AsScalar(); ok {
			_ = sc.SetGoValue(tok)
		}
	}
}

func j5reflectEnum(prefix string, names []string) *j5schema.EnumSchema {
	return j5schema.VerifEnumSchema(prefix, names)
}

// ---------- H03a (full range): canonical numerals of arbitrary 64-bit values ----------

// Every decimal numeral, quoted or bare, is accepted iff its value fits the
// field, and is stored exactly; the two spellings agree.
func HarnessNumeralToken() {
	kind := kInt32 + ndChoice("intkind", 4)
	tag := ":" + verifKindName[kind]
	unsignedSrc := ndBool("unsignedSource")
	var text string
	var asI int64
	var asU uint64
	if unsignedSrc {
		asU = ndUint64("u")
		text = strconv.FormatUint(asU, 10)
	} else {
		asI = ndInt64("i")
		text = strconv.FormatInt(asI, 10)
	}
	fits := false
	switch kind {
	case kInt32:
		if unsignedSrc {
			fits = asU <= 1<<31-1
		} else {
			fits = asI >= -(1<<31) && asI <= 1<<31-1
		}
	case kInt64:
		if unsignedSrc {
			fits = asU <= 1<<63-1
		} else {
			fits = true
		}
	case kUint32:
		if unsignedSrc {
			fits = asU <= 1<<32-1
		} else {
			fits = asI >= 0 && asI <= 1<<32-1
		}
	case kUint64:
		if unsignedSrc {
			fits = true
		} else {
			fits = asI >= 0
		}
	}
	quoted := ndBool("quoted")
	var tok interface{} = json.Number(text)
	if quoted {
		tok = text
	}
	sf, cell := j5reflect.VerifNewScalar(verifSchema(kind))
	err := sf.SetGoValue(tok)
	if err != nil {
		verifAssert(!fits, "in-range-numeral-accepted"+tag)
		return
	}
	verifAssert(fits, "out-of-range-numeral-rejected"+tag)
	verifAssert(cell.IsSet, "accepted-numeral-is-stored"+tag)
	if !cell.IsSet || !fits {
		return
	}
	switch kind {
	case kInt32, kInt64:
		if unsignedSrc {
			verifAssert(uint64(cell.Val.Int()) == asU, "numeral-exact"+tag)
		} else {
			verifAssert(cell.Val.Int() == asI, "numeral-exact"+tag)
		}
	default:
		if unsignedSrc {
			verifAssert(cell.Val.Uint() == asU, "numeral-exact"+tag)
		} else {
			verifAssert(cell.Val.Uint() == uint64(asI), "numeral-exact"+tag)
		}
	}
}

// ---------- H06b / H03d: structural decoding over a symbolic JSON tree ----------
//
// The harness draws a small JSON document as a *tree of choices*, renders it
// both as text (what the natively compiled decoder reads through the real
// encoding/json) and as the token sequence encoding/json.Decoder.Token/More
// produce for that text (what the engine serves through a cut of those two
// methods: the documented tokenizer contract). Property sets are fakes that
// keep the CreateField "already set" contract; leaves are the real
// scalarField / arrayOfScalarField / mapOfScalarField.

var verifToks []json.Token
var verifTokPos int

func verifJSONToken(d *json.Decoder) (json.Token, error) {
	if verifTokPos >= len(verifToks) {
		return nil, errors.New("EOF")
	}
	t := verifToks[verifTokPos]
	verifTokPos++
	return t, nil
}

func verifJSONMore(d *json.Decoder) bool {
	if verifTokPos >= len(verifToks) {
		return false
	}
	if dl, ok := verifToks[verifTokPos].(json.Delim); ok && (dl == '}' || dl == ']') {
		return false
	}
	return true
}

type verifDoc struct {
	text []byte
	toks []json.Token
}

func (d *verifDoc) delim(c byte) {
	d.text = append(d.text, c)
	d.toks = append(d.toks, json.Delim(c))
}
func (d *verifDoc) str(s string) {
	d.text = append(d.text, '"')
	d.text = append(d.text, s...)
	d.text = append(d.text, '"')
	d.toks = append(d.toks, s)
}
func (d *verifDoc) raw(s string, tok json.Token) {
	d.text = append(d.text, s...)
	d.toks = append(d.toks, tok)
}
func (d *verifDoc) sep(c byte) { d.text = append(d.text, c) }

// property kinds of the fake schema
const (
	pStr   = iota // scalar string
	pInt          // scalar int32
	pObj          // object {a: string, n: int32}
	pOneof        // oneof  {a: string, n: int32}
	pArr          // array of int32
	pMap          // map<string>string
)

var verifPropNames = []string{"a", "n", "o", "w", "r", "m"}

type verifSet struct {
	j5reflect.Oneof // provides the rest of PropertySet; only the methods below are called
	isOneof         bool
	depth           int
	props           map[string]*verifProp
	order           []string
}

func newVerifSet(isOneof bool, depth int) *verifSet {
	s := &verifSet{isOneof: isOneof, depth: depth, props: map[string]*verifProp{}}
	names := verifPropNames
	if depth == 0 {
		names = verifPropNames[:2] // leaves only at the bottom
	}
	for i, n := range names {
		s.props[n] = &verifProp{kind: i, depth: depth}
		s.order = append(s.order, n)
	}
	return s
}

func (s *verifSet) GetProperty(name string) (j5reflect.Property, error) {
	p, ok := s.props[name]
	if !ok {
		return nil, errors.New("no such property")
	}
	return p, nil
}

func (s *verifSet) NewValue(name string) (j5reflect.Field, error) {
	p, ok := s.props[name]
	if !ok {
		return nil, errors.New("no such property")
	}
	return p.CreateField()
}

type verifProp struct {
	j5reflect.Property
	kind  int
	depth int
	set   bool
	cell  *j5reflect.VerifCell
	list  *j5reflect.VerifList
	pmap  *j5reflect.VerifMap
	child *verifSet
}

func (p *verifProp) PropertyType() j5reflect.PropertyType {
	switch p.kind {
	case pObj:
		return j5reflect.ObjectProperty
	case pOneof:
		return j5reflect.OneofProperty
	case pArr:
		return j5reflect.ArrayProperty
	case pMap:
		return j5reflect.MapProperty
	}
	return j5reflect.ScalarProperty
}

type verifContainerField struct {
	j5reflect.OneofField
	set *verifSet
}

func (f *verifContainerField) AsObject() (j5reflect.ObjectField, bool) {
	return verifObjectField{f}, !f.set.isOneof
}
func (f *verifContainerField) AsOneof() (j5reflect.OneofField, bool) { return f, f.set.isOneof }
func (f *verifContainerField) GetProperty(name string) (j5reflect.Property, error) {
	return f.set.GetProperty(name)
}
func (f *verifContainerField) NewValue(name string) (j5reflect.Field, error) {
	return f.set.NewValue(name)
}

type verifObjectField struct{ *verifContainerField }

func (verifObjectField) HasAnyValue() bool { return true }

type verifMapField struct {
	j5reflect.MapField
	inner j5reflect.MapOfScalarField
}

func (m verifMapField) AsMap() (j5reflect.MapField, bool) { return m, true }
func (m verifMapField) SetGoValue(key string, value interface{}) error {
	return m.inner.SetGoValue(key, value)
}
func (m verifMapField) SetASTValue(key string, value j5reflect.ASTValue) error { return nil }

func (p *verifProp) CreateField() (j5reflect.Field, error) {
	if p.set {
		return nil, errors.New("field is already set")
	}
	p.set = true
	switch p.kind {
	case pStr:
		f, cell := j5reflect.VerifNewScalar(verifSchema(kString))
		p.cell = cell
		return f, nil
	case pInt:
		f, cell := j5reflect.VerifNewScalar(verifSchema(kInt32))
		p.cell = cell
		return f, nil
	case pObj, pOneof:
		p.child = newVerifSet(p.kind == pOneof, p.depth-1)
		return &verifContainerField{set: p.child}, nil
	case pArr:
		f, l := j5reflect.VerifNewScalarArray(verifSchema(kInt32))
		p.list = l
		return f, nil
	case pMap:
		f, m := j5reflect.VerifNewScalarMap(verifSchema(kString))
		p.pmap = m
		return verifMapField{inner: f}, nil
	}
	return nil, errors.New("bad kind")
}

// value shapes
const (
	vStrA = iota // "a"
	vStrN        // "n"
	vStrX        // "x"
	vNum         // 7
	vNull
	vTrue
	vObject // {...} nested members
	vArray  // [7] or [7,null] or []
	vKinds
)

type verifMember struct {
	key    string
	shape  int
	nested []verifMember
	arrLen int
	arrNil bool
}

func verifDrawMembers(depth int, max int) []verifMember {
	n := ndIntRange("members", 0, max)
	out := make([]verifMember, n)
	keys := []string{"a", "n", "o", "w", "r", "m", "!type", "zz"}
	for i := range out {
		out[i].key = keys[ndChoice("key", len(keys))]
		out[i].shape = ndChoice("shape", vKinds)
		if out[i].shape == vObject && depth > 0 {
			out[i].nested = verifDrawMembers(depth-1, verifParam("M2", 2))
		}
		if out[i].shape == vArray {
			out[i].arrLen = ndIntRange("arrLen", 0, 2)
			out[i].arrNil = ndBool("arrNull")
		}
	}
	return out
}

func (d *verifDoc) members(ms []verifMember) {
	for i, m := range ms {
		if i > 0 {
			d.sep(',')
		}
		d.str(m.key)
		d.sep(':')
		switch m.shape {
		case vStrA:
			d.str("a")
		case vStrN:
			d.str("n")
		case vStrX:
			d.str("x")
		case vNum:
			d.raw("7", json.Number("7"))
		case vNull:
			d.raw("null", nil)
		case vTrue:
			d.raw("true", true)
		case vObject:
			d.delim('{')
			d.members(m.nested)
			d.delim('}')
		case vArray:
			d.delim('[')
			for k := 0; k < m.arrLen; k++ {
				if k > 0 {
					d.sep(',')
				}
				if m.arrNil && k == m.arrLen-1 {
					d.raw("null", nil)
				} else {
					d.raw("7", json.Number("7"))
				}
			}
			d.delim(']')
		}
	}
}

// verifExpectError: faults the statement lists, decided independently of the
// decoder: unknown key, duplicate key, wrong JSON type for the target,
// more than one (non-null) key in a oneof, "!type" contradicting the key.
// Returns (mustFail, mustSucceed); both false = unspecified (e.g. null
// members inside a oneof, "!type" in an object).
func verifExpect(ms []verifMember, isOneof bool, depth int) (mustFail, unspecified bool) {
	seen := map[string]bool{}
	keys := 0
	typeName := ""
	hasType := false
	var firstKey string
	for _, m := range ms {
		if m.key == "!type" {
			if !isOneof {
				mustFail = true // not a property of an object
				continue
			}
			switch m.shape {
			case vStrA:
				typeName, hasType = "a", true
			case vStrN:
				typeName, hasType = "n", true
			case vStrX:
				typeName, hasType = "x", true
			case vNull:
				unspecified = true
			default:
				mustFail = true
			}
			continue
		}
		kind := -1
		for i, n := range verifPropNames {
			if n == m.key && (depth > 0 || i < 2) {
				kind = i
			}
		}
		if kind < 0 {
			mustFail = true
			continue
		}
		if m.shape == vNull {
			if isOneof {
				unspecified = true
			}
			continue
		}
		if seen[m.key] {
			mustFail = true
		}
		seen[m.key] = true
		if keys == 0 {
			firstKey = m.key
		}
		keys++
		switch kind {
		case pStr:
			if !(m.shape == vStrA || m.shape == vStrN || m.shape == vStrX) {
				mustFail = true
			}
		case pInt:
			if m.shape != vNum {
				mustFail = true
			}
		case pObj, pOneof:
			if m.shape != vObject {
				mustFail = true
			} else {
				f, u := verifExpect(m.nested, kind == pOneof, depth-1)
				mustFail = mustFail || f
				unspecified = unspecified || u
			}
		case pArr:
			if m.shape != vArray || (m.arrNil && m.arrLen > 0) {
				mustFail = true
			}
		case pMap:
			if m.shape != vObject {
				mustFail = true
			} else {
				for _, e := range m.nested {
					if !(e.shape == vStrA || e.shape == vStrN || e.shape == vStrX) {
						mustFail = true
					}
				}
				ks := map[string]bool{}
				for _, e := range m.nested {
					if ks[e.key] {
						unspecified = true // duplicate map keys: last wins in JSON practice
					}
					ks[e.key] = true
				}
			}
		}
	}
	if isOneof {
		if keys > 1 {
			mustFail = true
		}
		if hasType && keys == 1 && typeName != firstKey {
			mustFail = true
		}
		if hasType && keys == 0 && !(typeName == "a" || typeName == "n" || (depth > 0 && (typeName == "o" || typeName == "w" || typeName == "r" || typeName == "m"))) {
			mustFail = true
		}
	}
	return
}

func HarnessDecodeStructure() {
	rootOneof := ndBool("rootIsOneof")
	depth := verifParam("depth", 1)
	ms := verifDrawMembers(depth, verifParam("M", 2))
	doc := &verifDoc{}
	doc.delim('{')
	doc.members(ms)
	doc.delim('}')
	verifToks, verifTokPos = doc.toks, 0
	jd := json.NewDecoder(bytes.NewReader(doc.text))
	jd.UseNumber()
	dec := &decoder{jd: jd}
	root := newVerifSet(rootOneof, depth)
	var err error
	verifTermBudget(3000000)
	if rootOneof {
		err = dec.decodeOneof(root)
	} else {
		err = dec.decodeObject(root)
	}
	verifEndTermBudget()
	mustFail, unspecified := verifExpect(ms, rootOneof, depth)
	if mustFail {
		verifAssert(err != nil, "faulty-document-rejected")
		return
	}
	if unspecified {
		return
	}
	verifAssert(err == nil, "well-formed-document-accepted")
	if err != nil {
		return
	}
	// every non-null member is stored
	for _, m := range ms {
		if m.shape == vNull || m.key == "!type" {
			continue
		}
		p := root.props[m.key]
		verifAssert(p != nil && p.set, "member-stored")
		if p == nil || !p.set {
			continue
		}
		switch p.kind {
		case pStr:
			want := "a"
			if m.shape == vStrN {
				want = "n"
			}
			if m.shape == vStrX {
				want = "x"
			}
			verifAssert(p.cell.IsSet && p.cell.Val.String() == want, "string-member-exact")
		case pInt:
			verifAssert(p.cell.IsSet && p.cell.Val.Int() == 7, "int-member-exact")
		case pArr:
			verifAssert(p.list.Len() == m.arrLen, "array-member-length")
		case pMap:
			ks := map[string]bool{}
			for _, e := range m.nested {
				ks[e.key] = true
			}
			verifAssert(p.pmap.Len() == len(ks), "map-member-size")
		}
	}
}
