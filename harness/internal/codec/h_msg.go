package codec

// Whole-message harnesses: the real Reflector / schema cache / property sets /
// array, map, object and oneof fields and the real encoder and decoder run on
// a dynamic protoreflect message (fakemsg over fakedesc) whose *content* is
// symbolic: strings and map keys are arbitrary bytes, numbers arbitrary, which
// members are set is arbitrary. One container family is populated at a time,
// with an optional leading and trailing scalar so that separators next to
// every container kind are exercised.

import (
	"encoding/json"
	"errors"
	"net/url"

	"github.com/pentops/j5/gen/j5/ext/v1/ext_j5pb"
	"github.com/pentops/j5/lib/j5reflect"
	"github.com/pentops/j5/lib/j5schema"
	"google.golang.org/grpc/codes"
	"google.golang.org/protobuf/proto"
	"google.golang.org/protobuf/reflect/protoreflect"
	"google.golang.org/protobuf/types/descriptorpb"
)

func vmField(name string, num int32, t descriptorpb.FieldDescriptorProto_Type, typeName string) *descriptorpb.FieldDescriptorProto {
	fd := &descriptorpb.FieldDescriptorProto{Name: proto.String(name), JsonName: proto.String(name), Number: proto.Int32(num), Type: t.Enum(),
		Label: descriptorpb.FieldDescriptorProto_LABEL_OPTIONAL.Enum(), Options: &descriptorpb.FieldOptions{}}
	if typeName != "" {
		fd.TypeName = proto.String(typeName)
	}
	return fd
}

func vmRepeated(fd *descriptorpb.FieldDescriptorProto) *descriptorpb.FieldDescriptorProto {
	fd.Label = descriptorpb.FieldDescriptorProto_LABEL_REPEATED.Enum()
	return fd
}

func vmEntry(name string, value *descriptorpb.FieldDescriptorProto) *descriptorpb.DescriptorProto {
	return &descriptorpb.DescriptorProto{Name: proto.String(name), Options: &descriptorpb.MessageOptions{MapEntry: proto.Bool(true)},
		Field: []*descriptorpb.FieldDescriptorProto{
			vmField("key", 1, descriptorpb.FieldDescriptorProto_TYPE_STRING, ""),
			value,
		}}
}

const (
	dtStr  = descriptorpb.FieldDescriptorProto_TYPE_STRING
	dtI32  = descriptorpb.FieldDescriptorProto_TYPE_INT32
	dtI64  = descriptorpb.FieldDescriptorProto_TYPE_INT64
	dtBool = descriptorpb.FieldDescriptorProto_TYPE_BOOL
	dtMsg  = descriptorpb.FieldDescriptorProto_TYPE_MESSAGE
	dtEnum = descriptorpb.FieldDescriptorProto_TYPE_ENUM
)

// package m.v1:
//
//	message Inner  { string a = 1; int32 n = 2; }
//	message Choice { option (j5.ext.v1.message).oneof = {}; oneof type { string a = 1; int32 n = 2; Inner o = 3; } }
//	enum    E      { E_UNSPECIFIED = 0; E_ONE = 1; E_TWO = 2; }
//	message Root {
//	  string a = 1; int32 n = 2; int64 l = 3; bool b = 4; optional string os = 5; E e = 6;
//	  Inner o = 7; Choice w = 8;
//	  repeated int32 r = 9; repeated Inner ro = 10; repeated string rs = 11;
//	  map<string,string> m = 12; map<string,Inner> mo = 13;
//	  string z = 14;
//	  Flat fl = 15 [(j5.ext.v1.field).object.flatten = true];   // message Flat { string fa = 1; int32 fn = 2; Deep deep = 3 [flatten]; }  message Deep { string da = 1; }
//	  oneof pick { option (j5.ext.v1.oneof).expose = true; string px = 16; int32 pn = 17; }
//	  j5.types.any.v1.Any any = 18;
//	}
func verifMsgUniverse() *j5schema.VerifUniverse {
	inner := &descriptorpb.DescriptorProto{Name: proto.String("Inner"), Field: []*descriptorpb.FieldDescriptorProto{
		vmField("a", 1, dtStr, ""), vmField("n", 2, dtI32, "")}}
	choice := &descriptorpb.DescriptorProto{Name: proto.String("Choice"),
		OneofDecl: []*descriptorpb.OneofDescriptorProto{{Name: proto.String("type")}},
		Field: []*descriptorpb.FieldDescriptorProto{
			vmField("a", 1, dtStr, ""), vmField("n", 2, dtI32, ""), vmField("o", 3, dtMsg, ".m.v1.Inner")}}
	for _, f := range choice.Field {
		f.OneofIndex = proto.Int32(0)
	}
	choice.Options = &descriptorpb.MessageOptions{}
	proto.SetExtension(choice.Options, ext_j5pb.E_Message, &ext_j5pb.MessageOptions{Type: &ext_j5pb.MessageOptions_Oneof{Oneof: &ext_j5pb.OneofMessageOptions{}}})
	os := vmField("os", 5, dtStr, "")
	os.Proto3Optional = proto.Bool(true)
	os.OneofIndex = proto.Int32(0)
	// flattened object: its members are inlined into Root's JSON object
	// ... and itself holds a flattened object (two levels of inlining)
	deepMsg := &descriptorpb.DescriptorProto{Name: proto.String("Deep"), Field: []*descriptorpb.FieldDescriptorProto{vmField("da", 1, dtStr, "")}}
	deep := vmField("deep", 3, dtMsg, ".m.v1.Deep")
	proto.SetExtension(deep.Options, ext_j5pb.E_Field, &ext_j5pb.FieldOptions{Type: &ext_j5pb.FieldOptions_Object{Object: &ext_j5pb.ObjectField{Flatten: true}}})
	flatMsg := &descriptorpb.DescriptorProto{Name: proto.String("Flat"), Field: []*descriptorpb.FieldDescriptorProto{
		vmField("fa", 1, dtStr, ""), vmField("fn", 2, dtI32, ""), deep}}
	flat := vmField("fl", 15, dtMsg, ".m.v1.Flat")
	proto.SetExtension(flat.Options, ext_j5pb.E_Field, &ext_j5pb.FieldOptions{Type: &ext_j5pb.FieldOptions_Object{Object: &ext_j5pb.ObjectField{Flatten: true}}})
	// exposed oneof: a real oneof of Root presented as the property "pick"
	px, pn := vmField("px", 16, dtStr, ""), vmField("pn", 17, dtI32, "")
	px.OneofIndex, pn.OneofIndex = proto.Int32(1), proto.Int32(1)
	pick := &descriptorpb.OneofDescriptorProto{Name: proto.String("pick"), Options: &descriptorpb.OneofOptions{}}
	proto.SetExtension(pick.Options, ext_j5pb.E_Oneof, &ext_j5pb.OneofOptions{Expose: true})
	root := &descriptorpb.DescriptorProto{Name: proto.String("Root"),
		OneofDecl: []*descriptorpb.OneofDescriptorProto{{Name: proto.String("_os")}, pick},
		NestedType: []*descriptorpb.DescriptorProto{
			vmEntry("MEntry", vmField("value", 2, dtStr, "")),
			vmEntry("MoEntry", vmField("value", 2, dtMsg, ".m.v1.Inner")),
		},
		Field: []*descriptorpb.FieldDescriptorProto{
			vmField("a", 1, dtStr, ""), vmField("n", 2, dtI32, ""), vmField("l", 3, dtI64, ""), vmField("b", 4, dtBool, ""), os,
			vmField("e", 6, dtEnum, ".m.v1.E"),
			vmField("o", 7, dtMsg, ".m.v1.Inner"), vmField("w", 8, dtMsg, ".m.v1.Choice"),
			vmRepeated(vmField("r", 9, dtI32, "")), vmRepeated(vmField("ro", 10, dtMsg, ".m.v1.Inner")), vmRepeated(vmField("rs", 11, dtStr, "")),
			vmRepeated(vmField("m", 12, dtMsg, ".m.v1.Root.MEntry")), vmRepeated(vmField("mo", 13, dtMsg, ".m.v1.Root.MoEntry")),
			vmField("z", 14, dtStr, ""),
			flat, px, pn,
			vmField("any", 18, dtMsg, ".j5.types.any.v1.Any"),
		}}
	ev := func(name string, n int32) *descriptorpb.EnumValueDescriptorProto {
		return &descriptorpb.EnumValueDescriptorProto{Name: proto.String(name), Number: proto.Int32(n)}
	}
	fdp := &descriptorpb.FileDescriptorProto{Name: proto.String("m/v1/m.proto"), Package: proto.String("m.v1"), Syntax: proto.String("proto3"),
		MessageType: []*descriptorpb.DescriptorProto{inner, choice, deepMsg, flatMsg, root},
		EnumType:    []*descriptorpb.EnumDescriptorProto{{Name: proto.String("E"), Value: []*descriptorpb.EnumValueDescriptorProto{ev("E_UNSPECIFIED", 0), ev("E_ONE", 1), ev("E_TWO", 2)}}}}
	// the j5 Any type, with its real shape
	anyFile := &descriptorpb.FileDescriptorProto{Name: proto.String("j5/types/any/v1/any.proto"), Package: proto.String("j5.types.any.v1"), Syntax: proto.String("proto3"),
		MessageType: []*descriptorpb.DescriptorProto{{Name: proto.String("Any"), Field: []*descriptorpb.FieldDescriptorProto{
			vmField("type_name", 1, dtStr, ""), vmField("proto", 2, descriptorpb.FieldDescriptorProto_TYPE_BYTES, ""), vmField("j5_json", 3, descriptorpb.FieldDescriptorProto_TYPE_BYTES, "")}}}}
	return j5schema.VerifNewUniverse(fdp, anyFile)
}

// verifNoTypes: a resolver that knows no message type (decoding the proto half
// of an Any needs the protobuf runtime, which is outside this harness)
type verifNoTypes struct{}

func (verifNoTypes) FindMessageByName(name protoreflect.FullName) (protoreflect.MessageType, error) {
	return nil, errors.New("not found")
}

// ---- expected / parsed JSON trees ----

type refNode struct {
	kind  byte // 'o' object, 'a' array, 's' string, 'l' other literal
	keys  []string
	vals  []*refNode
	str   string // decoded string
	lit   string // literal text
	any   bool   // member order not specified (maps)
	num   int64  // expected value of a numeric literal (isNum)
	isNum bool
}

func rnStr(s string) *refNode { return &refNode{kind: 's', str: s} }
func rnLit(s string) *refNode { return &refNode{kind: 'l', lit: s} }
func rnNum(v int64) *refNode  { return &refNode{kind: 'l', num: v, isNum: true} }
func (n *refNode) add(k string, v *refNode) {
	n.keys = append(n.keys, k)
	n.vals = append(n.vals, v)
}

// refParseJSON: RFC 8259 value at b[i:], no insignificant whitespace (the
// encoder writes none), numbers restricted to integers. Appends the token
// sequence encoding/json.Decoder.Token (UseNumber) yields for the text.
func refParseJSON(b []byte, i int, toks *[]json.Token) (*refNode, int, bool) {
	if i >= len(b) {
		return nil, i, false
	}
	switch b[i] {
	case '{':
		*toks = append(*toks, json.Delim('{'))
		n := &refNode{kind: 'o'}
		i++
		if i < len(b) && b[i] == '}' {
			*toks = append(*toks, json.Delim('}'))
			return n, i + 1, true
		}
		for {
			k, next, ok := refParseJSON(b, i, toks)
			if !ok || k.kind != 's' {
				return nil, i, false
			}
			i = next
			if i >= len(b) || b[i] != ':' {
				return nil, i, false
			}
			v, next, ok := refParseJSON(b, i+1, toks)
			if !ok {
				return nil, i, false
			}
			i = next
			n.add(k.str, v)
			if i >= len(b) {
				return nil, i, false
			}
			if b[i] == '}' {
				*toks = append(*toks, json.Delim('}'))
				return n, i + 1, true
			}
			if b[i] != ',' {
				return nil, i, false
			}
			i++
		}
	case '[':
		*toks = append(*toks, json.Delim('['))
		n := &refNode{kind: 'a'}
		i++
		if i < len(b) && b[i] == ']' {
			*toks = append(*toks, json.Delim(']'))
			return n, i + 1, true
		}
		for {
			v, next, ok := refParseJSON(b, i, toks)
			if !ok {
				return nil, i, false
			}
			i = next
			n.vals = append(n.vals, v)
			if i >= len(b) {
				return nil, i, false
			}
			if b[i] == ']' {
				*toks = append(*toks, json.Delim(']'))
				return n, i + 1, true
			}
			if b[i] != ',' {
				return nil, i, false
			}
			i++
		}
	case '"':
		j := i + 1
		for {
			if j >= len(b) {
				return nil, i, false
			}
			if b[j] == '\\' {
				j += 2
				continue
			}
			if b[j] == '"' {
				break
			}
			j++
		}
		s, ok := refJSONUnquote(b[i : j+1])
		if !ok || !refValidUTF8(s) {
			return nil, i, false
		}
		*toks = append(*toks, string(s))
		return rnStr(string(s)), j + 1, true
	}
	j := i
	for j < len(b) && b[j] != ',' && b[j] != '}' && b[j] != ']' {
		j++
	}
	lit := b[i:j]
	switch {
	case string(lit) == "true":
		*toks = append(*toks, true)
	case string(lit) == "false":
		*toks = append(*toks, false)
	case refIntegerLiteral(lit):
		*toks = append(*toks, json.Number(string(lit)))
	default:
		return nil, i, false
	}
	return rnLit(string(lit)), j, true
}

func refTreeEqual(got, want *refNode, tag string) {
	if got.kind != want.kind {
		verifFail("value-kind" + tag)
		return
	}
	switch want.kind {
	case 's':
		verifAssert(got.str == want.str, "string-value"+tag)
	case 'l':
		if want.isNum {
			neg, mag, ok := refParseDecimal(got.lit)
			v := int64(mag)
			if neg {
				v = -v
			}
			verifAssert(verifAll(ok, v == want.num), "number-value"+tag)
		} else {
			verifAssert(got.lit == want.lit, "literal-value"+tag)
		}
	case 'a':
		verifAssert(len(got.vals) == len(want.vals), "array-length"+tag)
		if len(got.vals) != len(want.vals) {
			return
		}
		for i := range want.vals {
			refTreeEqual(got.vals[i], want.vals[i], tag)
		}
	case 'o':
		verifAssert(len(got.keys) == len(want.keys), "member-count"+tag)
		if len(got.keys) != len(want.keys) {
			return
		}
		if !want.any {
			for i := range want.keys {
				verifAssert(got.keys[i] == want.keys[i], "member-name"+tag)
				refTreeEqual(got.vals[i], want.vals[i], tag+"."+want.keys[i])
			}
			return
		}
		for i := range want.keys {
			found := -1
			for k := range got.keys {
				if got.keys[k] == want.keys[i] {
					found = k
				}
			}
			verifAssert(found >= 0, "map-key-present"+tag)
			if found >= 0 {
				refTreeEqual(got.vals[found], want.vals[i], tag)
			}
		}
	}
}

// ---- symbolic content ----

type vmBuilder struct {
	u      *j5schema.VerifUniverse
	utf8OK bool // every string placed in the message is valid UTF-8
	// an Any without stored J5 JSON: the encoder has to fail (unknown proto type
	// here) — whatever it does, it must not emit malformed JSON
	anyWithoutJSON bool
	family         int
}

func (vb *vmBuilder) text(name string, max int) string {
	b := verifBytes(name, max)
	if !refValidUTF8(b) {
		vb.utf8OK = false
	}
	return string(b)
}

func (vb *vmBuilder) inner(tag string, s int) (*j5schema.VerifDynMessage, *refNode) {
	md := vb.u.Message("m.v1.Inner")
	m := j5schema.VerifNewDynMessage(md)
	n := &refNode{kind: 'o'}
	a := vb.text(tag+".a", s)
	if len(a) > 0 {
		m.Set(md.Fields().ByName("a"), protoreflect.ValueOfString(a))
		n.add("a", rnStr(a))
	}
	v := int32(ndIntRange(tag+".n", -1, 1))
	if v != 0 {
		m.Set(md.Fields().ByName("n"), protoreflect.ValueOfInt32(v))
		n.add("n", rnNum(int64(v)))
	}
	return m, n
}

// vmDraw builds a Root message with symbolic content and the JSON tree the
// documented mapping gives for it.
func (vb *vmBuilder) draw() (*j5schema.VerifDynMessage, *refNode) {
	S := verifParam("S", 2)
	N := verifParam("N", 2)
	rd := vb.u.Message("m.v1.Root")
	fd := func(name string) protoreflect.FieldDescriptor { return rd.Fields().ByName(protoreflect.Name(name)) }
	m := j5schema.VerifNewDynMessage(rd)
	want := &refNode{kind: 'o'}
	if ndBool("leading-a") {
		m.Set(fd("a"), protoreflect.ValueOfString("x"))
		want.add("a", rnStr("x"))
	}
	family := ndChoice("family", 10)
	vb.family = family
	if only := verifParam("family", -1); only >= 0 && only != family {
		verifAssume(false)
	}
	switch family {
	case 0: // scalars
		v := ndInt32("n") // numerals of five and more digits are covered by HarnessScalarRoundTrip
		verifAssume(v > -10000)
		verifAssume(v < 10000)
		if v != 0 {
			m.Set(fd("n"), protoreflect.ValueOfInt32(v))
			want.add("n", rnNum(int64(v)))
		}
		if ndBool("b") {
			m.Set(fd("b"), protoreflect.ValueOfBool(true))
			want.add("b", rnLit("true"))
		}
		if ndBool("os-set") {
			s := vb.text("os", 1)
			m.Set(fd("os"), protoreflect.ValueOfString(s))
			want.add("os", rnStr(s))
		}
		e := ndIntRange("e", 0, 2)
		if e != 0 {
			m.Set(fd("e"), protoreflect.ValueOfEnum(protoreflect.EnumNumber(e)))
			want.add("e", rnStr([]string{"UNSPECIFIED", "ONE", "TWO"}[e]))
		}
	case 1: // nested object
		if ndBool("o-set") {
			in, tn := vb.inner("o", S)
			m.Set(fd("o"), protoreflect.ValueOfMessage(in))
			want.add("o", tn)
		}
	case 2: // oneof wrapper
		cd := vb.u.Message("m.v1.Choice")
		if ndBool("w-set") {
			c := j5schema.VerifNewDynMessage(cd)
			tn := &refNode{kind: 'o'}
			switch ndChoice("w-which", 4) {
			case 1:
				s := vb.text("w.a", S)
				c.Set(cd.Fields().ByName("a"), protoreflect.ValueOfString(s))
				tn.add("!type", rnStr("a"))
				tn.add("a", rnStr(s))
			case 2:
				v := ndInt32("w.n")
				verifAssume(v > -10000)
				verifAssume(v < 10000)
				c.Set(cd.Fields().ByName("n"), protoreflect.ValueOfInt32(v))
				tn.add("!type", rnStr("n"))
				tn.add("n", rnNum(int64(v)))
			case 3:
				in, itn := vb.inner("w.o", 1)
				c.Set(cd.Fields().ByName("o"), protoreflect.ValueOfMessage(in))
				tn.add("!type", rnStr("o"))
				tn.add("o", itn)
			}
			m.Set(fd("w"), protoreflect.ValueOfMessage(c))
			want.add("w", tn)
		}
	case 3: // arrays of scalars
		k := ndIntRange("r-len", 0, N)
		if k > 0 {
			l := m.Mutable(fd("r")).List()
			tn := &refNode{kind: 'a'}
			for i := 0; i < k; i++ {
				v := ndInt32("r-item")
				verifAssume(v > -100)
				verifAssume(v < 100)
				l.Append(protoreflect.ValueOfInt32(v))
				tn.vals = append(tn.vals, rnNum(int64(v)))
			}
			want.add("r", tn)
		}
		k = ndIntRange("rs-len", 0, N)
		if k > 0 {
			l := m.Mutable(fd("rs")).List()
			tn := &refNode{kind: 'a'}
			for i := 0; i < k; i++ {
				s := vb.text("rs-item", 1)
				l.Append(protoreflect.ValueOfString(s))
				tn.vals = append(tn.vals, rnStr(s))
			}
			want.add("rs", tn)
		}
	case 4: // array of objects
		k := ndIntRange("ro-len", 0, N)
		if k > 0 {
			l := m.Mutable(fd("ro")).List()
			tn := &refNode{kind: 'a'}
			for i := 0; i < k; i++ {
				in, itn := vb.inner("ro-item", 1)
				l.Append(protoreflect.ValueOfMessage(in))
				tn.vals = append(tn.vals, itn)
			}
			want.add("ro", tn)
		}
	case 5: // map<string,string>
		k := ndIntRange("m-len", 0, N)
		if k > 0 {
			mp := m.Mutable(fd("m")).Map()
			tn := &refNode{kind: 'o', any: true}
			for i := 0; i < k; i++ {
				key := vb.text("m-key", S)
				for _, prev := range tn.keys {
					verifAssume(prev != key)
				}
				val := vb.text("m-val", 1)
				mp.Set(protoreflect.ValueOfString(key).MapKey(), protoreflect.ValueOfString(val))
				tn.add(key, rnStr(val))
			}
			want.add("m", tn)
		}
	case 6: // map<string,Inner>
		k := ndIntRange("mo-len", 0, N)
		if k > 0 {
			mp := m.Mutable(fd("mo")).Map()
			tn := &refNode{kind: 'o', any: true}
			for i := 0; i < k; i++ {
				key := vb.text("mo-key", S)
				for _, prev := range tn.keys {
					verifAssume(prev != key)
				}
				in, itn := vb.inner("mo-val", 1)
				mp.Set(protoreflect.ValueOfString(key).MapKey(), protoreflect.ValueOfMessage(in))
				tn.add(key, itn)
			}
			want.add("mo", tn)
		}
	}
	if ndBool("trailing-z") {
		m.Set(fd("z"), protoreflect.ValueOfString("y"))
		want.add("z", rnStr("y"))
	}
	switch family {
	case 7: // flattened object: members inlined after z; an empty one leaves no trace
		if ndBool("fl-set") {
			fm := vb.u.Message("m.v1.Flat")
			in := j5schema.VerifNewDynMessage(fm)
			a := vb.text("fl.fa", S)
			if len(a) > 0 {
				in.Set(fm.Fields().ByName("fa"), protoreflect.ValueOfString(a))
				want.add("fa", rnStr(a))
			}
			v := int32(ndIntRange("fl.fn", -1, 1))
			if v != 0 {
				in.Set(fm.Fields().ByName("fn"), protoreflect.ValueOfInt32(v))
				want.add("fn", rnNum(int64(v)))
			}
			if ndBool("fl.deep-set") {
				dm := vb.u.Message("m.v1.Deep")
				dd := j5schema.VerifNewDynMessage(dm)
				da := vb.text("fl.deep.da", 1)
				if len(da) > 0 {
					dd.Set(dm.Fields().ByName("da"), protoreflect.ValueOfString(da))
					want.add("da", rnStr(da)) // inlined twice: Deep into Flat into Root
				}
				in.Set(fm.Fields().ByName("deep"), protoreflect.ValueOfMessage(dd))
			}
			m.Set(fd("fl"), protoreflect.ValueOfMessage(in))
		}
	case 9: // j5 Any: {"!type": name, "value": <the stored J5 JSON>}
		if ndBool("any-set") {
			am := vb.u.Message("j5.types.any.v1.Any")
			av := j5schema.VerifNewDynMessage(am)
			tn := vb.text("any.type", 1)
			if len(tn) > 0 {
				av.Set(am.Fields().ByName("type_name"), protoreflect.ValueOfString(tn))
			}
			node := &refNode{kind: 'o'}
			node.add("!type", rnStr(tn))
			switch ndChoice("any.json", 3) {
			case 1:
				av.Set(am.Fields().ByName("j5_json"), protoreflect.ValueOfBytes([]byte("{}")))
				node.add("value", &refNode{kind: 'o'})
			case 2:
				av.Set(am.Fields().ByName("j5_json"), protoreflect.ValueOfBytes([]byte(`{"k":"v"}`)))
				inner := &refNode{kind: 'o'}
				inner.add("k", rnStr("v"))
				node.add("value", inner)
			default:
				// no J5 JSON stored: nothing the encoder can write as the value
				vb.anyWithoutJSON = true
				if ndBool("any.proto") {
					av.Set(am.Fields().ByName("proto"), protoreflect.ValueOfBytes([]byte{1}))
				}
			}
			m.Set(fd("any"), protoreflect.ValueOfMessage(av))
			want.add("any", node)
		}
	case 8: // exposed oneof
		switch ndChoice("pick", 3) {
		case 1:
			sv := vb.text("px", S)
			m.Set(fd("px"), protoreflect.ValueOfString(sv))
			tn := &refNode{kind: 'o'}
			tn.add("!type", rnStr("px"))
			tn.add("px", rnStr(sv))
			want.add("pick", tn)
		case 2:
			v := ndInt32("pn")
			verifAssume(v > -10000)
			verifAssume(v < 10000)
			m.Set(fd("pn"), protoreflect.ValueOfInt32(v))
			tn := &refNode{kind: 'o'}
			tn.add("!type", rnStr("pn"))
			tn.add("pn", rnNum(int64(v)))
			want.add("pick", tn)
		}
	}
	return m, want
}

// vmEqual: the two dynamic messages hold the same content (unset == empty for
// containers and implicit-presence scalars, as proto3 defines).
func vmEqual(a, b protoreflect.Message, tag string) {
	fields := a.Descriptor().Fields()
	for i := 0; i < fields.Len(); i++ {
		f := fields.Get(i)
		verifAssert(a.Has(f) == b.Has(f), "same-presence"+tag)
		if !a.Has(f) || !b.Has(f) {
			continue
		}
		va, vb := a.Get(f), b.Get(f)
		switch {
		case f.IsList():
			la, lb := va.List(), vb.List()
			verifAssert(la.Len() == lb.Len(), "same-list-length"+tag)
			if la.Len() != lb.Len() {
				continue
			}
			for k := 0; k < la.Len(); k++ {
				vmValueEqual(f, la.Get(k), lb.Get(k), tag)
			}
		case f.IsMap():
			ma, mb := va.Map(), vb.Map()
			verifAssert(ma.Len() == mb.Len(), "same-map-size"+tag)
			ma.Range(func(k protoreflect.MapKey, v protoreflect.Value) bool {
				verifAssert(mb.Has(k), "same-map-keys"+tag)
				if mb.Has(k) {
					vmValueEqual(f.MapValue(), v, mb.Get(k), tag)
				}
				return true
			})
		default:
			vmValueEqual(f, va, vb, tag)
		}
	}
}

func vmValueEqual(f protoreflect.FieldDescriptor, a, b protoreflect.Value, tag string) {
	switch f.Kind() {
	case protoreflect.MessageKind:
		vmEqual(a.Message(), b.Message(), tag)
	case protoreflect.StringKind:
		verifAssert(a.String() == b.String(), "same-string"+tag)
	case protoreflect.BoolKind:
		verifAssert(a.Bool() == b.Bool(), "same-bool"+tag)
	case protoreflect.EnumKind:
		verifAssert(a.Enum() == b.Enum(), "same-enum"+tag)
	case protoreflect.BytesKind:
		verifAssert(string(a.Bytes()) == string(b.Bytes()), "same-bytes"+tag)
	case protoreflect.Uint32Kind, protoreflect.Fixed32Kind, protoreflect.Uint64Kind, protoreflect.Fixed64Kind:
		verifAssert(a.Uint() == b.Uint(), "same-uint"+tag)
	case protoreflect.FloatKind, protoreflect.DoubleKind:
		// not compared (float values are opaque to the engine)
	default:
		verifAssert(a.Int() == b.Int(), "same-int"+tag)
	}
}

// vmEncodeChecked: draw a message, encode it with the real codec and check the
// text against the documented mapping. ok=false when there is nothing further
// to do on this path (invalid UTF-8 rejected, or a failure already reported).
func vmEncodeChecked() (vb *vmBuilder, c *Codec, msg *j5schema.VerifDynMessage, out []byte, toks []json.Token, ok bool) {
	vb = &vmBuilder{u: verifMsgUniverse(), utf8OK: true}
	var want *refNode
	msg, want = vb.draw()
	c = &Codec{refl: j5reflect.New(), resolver: verifNoTypes{}}
	verifTermBudget(8000000)
	out, err := c.encode(msg)
	verifEndTermBudget()
	if vb.anyWithoutJSON && vb.utf8OK {
		fine := err != nil
		if err == nil {
			var t2 []json.Token
			_, end, pok := refParseJSON(out, 0, &t2)
			fine = pok && end == len(out)
		}
		verifAssert(fine, "any-without-json-is-an-error-or-still-well-formed")
		return
	}
	if !vb.utf8OK {
		verifAssert(err != nil, "invalid-utf8-rejected")
		return
	}
	verifAssert(err == nil, "valid-message-encodes")
	if err != nil {
		return
	}
	if verifParam("debug", 0) == 1 {
		panic("DEBUG-OUTPUT " + string(out))
	}
	tree, end, pok := refParseJSON(out, 0, &toks)
	verifAssert(pok && end == len(out), "output-is-one-json-value")
	if !pok || end != len(out) {
		return
	}
	refTreeEqual(tree, want, "")
	ok = true
	return
}

// HarnessMessageEncode: C08 on whole messages. encode fails exactly when a
// string in the message is not valid UTF-8; otherwise the output is one
// RFC 8259 value whose tree is the documented mapping of the message.
func HarnessMessageEncode() {
	vmEncodeChecked()
}

// HarnessMessageRoundTrip: C01 on whole messages: as HarnessMessageEncode, then
// decoding that text into a fresh message gives the same content.
func HarnessMessageRoundTrip() {
	vb, c, msg, out, toks, ok := vmEncodeChecked()
	if !ok {
		return
	}
	if vb.family == 9 {
		return // decoding an Any re-reads raw JSON with encoding/json's Decode, which is not modelled
	}
	verifToks, verifTokPos = toks, 0
	back := j5schema.VerifNewDynMessage(vb.u.Message("m.v1.Root"))
	verifTermBudget(8000000)
	derr := c.decode(out, back)
	verifEndTermBudget()
	verifAssert(derr == nil, "own-output-decodes")
	if derr != nil {
		return
	}
	// (an empty flattened sub-object is treated as absent: vmSame)
	vmSame(msg, back, "-roundtrip")
	vmSame(back, msg, "-roundtrip-reverse")
}

// ---------- decode direction: arbitrary documents into a real message ----------
//
// HarnessMessageDecode: a JSON document drawn by choices (root members with
// any key of the schema, an unknown key or "!type", and any value shape:
// string, number, null, true, object, array; nested members, map entries and
// array elements likewise) is decoded by the real decoder into a fresh Root
// message through the real property sets. The verdict is compared with a
// reference reading of the document against the schema (vmRead): documents
// with a listed fault must be rejected, fault-free ones accepted with exactly
// the content they denote; every run must end without panic.

const (
	jStr = iota
	jNum
	jNull
	jTrue
	jObj
	jArr
	jShapes
)

type jnode struct {
	shape   int
	s       string
	members []jmember
	elems   []*jnode
}
type jmember struct {
	key string
	val *jnode
}

var jStrings = []string{"a", "n", "o"}

func jScalar(tag string, shapes int, strings int) *jnode {
	n := &jnode{shape: ndChoice(tag+"-shape", shapes)}
	if n.shape == jStr {
		n.s = jStrings[ndChoice(tag+"-string", strings)]
	}
	return n
}

// jLeaf: str a | num | null
func jLeaf(tag string) *jnode {
	return jScalar(tag, jNull+1, 1)
}

// jInner: a value one level down: str a|n, num, null, true, an object with at
// most one member over {a, n, zz} (leaf values), an array with at most one leaf
func jInner(tag string) *jnode {
	n := jScalar(tag, jShapes, 2)
	switch n.shape {
	case jObj:
		if ndBool(tag + "-member") {
			key := []string{"a", "n", "zz"}[ndChoice(tag+"-key", 3)]
			n.members = append(n.members, jmember{key: key, val: jLeaf(tag + "." + key)})
		}
	case jArr:
		if ndBool(tag + "-elem") {
			n.elems = append(n.elems, jLeaf(tag+"[]"))
		}
	}
	return n
}

// jValue: the value of the first root member: any scalar; an object with up
// to two members (the first with any key of {a, n, o, !type, zz} and any inner
// value, the second a leaf under the same key, "a" or "!type"); an array with
// up to two elements (any inner value, then num | null | {}).
func jValue(tag string) *jnode {
	n := jScalar(tag, jShapes, 3)
	switch n.shape {
	case jObj:
		k := ndIntRange(tag+"-members", 0, 2)
		first := ""
		for i := 0; i < k; i++ {
			if i == 0 {
				first = []string{"a", "n", "o", "!type", "zz", "px", "pn"}[ndChoice(tag+"-key", 7)]
				n.members = append(n.members, jmember{key: first, val: jInner(tag + "." + first)})
			} else {
				key := []string{first, "a", "!type"}[ndChoice(tag+"-key2", 3)]
				n.members = append(n.members, jmember{key: key, val: jScalar(tag+"."+key+"-2", jNull+1, 2)})
			}
		}
	case jArr:
		k := ndIntRange(tag+"-elems", 0, 2)
		for i := 0; i < k; i++ {
			if i == 0 {
				n.elems = append(n.elems, jInner(tag+"[]"))
			} else {
				e := &jnode{shape: []int{jNum, jNull, jObj}[ndChoice(tag+"[]-2", 3)]}
				n.elems = append(n.elems, e)
			}
		}
	}
	return n
}

func (d *verifDoc) node(n *jnode) {
	switch n.shape {
	case jStr:
		d.str(n.s)
	case jNum:
		d.raw("7", json.Number("7"))
	case jNull:
		d.raw("null", nil)
	case jTrue:
		d.raw("true", true)
	case jObj:
		d.delim('{')
		for i, m := range n.members {
			if i > 0 {
				d.sep(',')
			}
			d.str(m.key)
			d.sep(':')
			d.node(m.val)
		}
		d.delim('}')
	case jArr:
		d.delim('[')
		for i, e := range n.elems {
			if i > 0 {
				d.sep(',')
			}
			d.node(e)
		}
		d.delim(']')
	}
}

type vmVerdict struct{ fail, unspecified bool }

// vmReadValue: what a JSON value denotes for a (non-repeated view of a) field.
func (v *vmVerdict) readSingular(u *j5schema.VerifUniverse, f protoreflect.FieldDescriptor, n *jnode) (protoreflect.Value, bool) {
	switch f.Kind() {
	case protoreflect.StringKind:
		if n.shape != jStr {
			v.fail = true
			return protoreflect.Value{}, false
		}
		return protoreflect.ValueOfString(n.s), true
	case protoreflect.Int32Kind:
		if n.shape != jNum {
			v.fail = true // the strings used here are not numerals
			return protoreflect.Value{}, false
		}
		return protoreflect.ValueOfInt32(7), true
	case protoreflect.MessageKind:
		if n.shape != jObj {
			v.fail = true
			return protoreflect.Value{}, false
		}
		md := u.Message(string(f.Message().FullName()))
		m := v.readMessage(u, md, n.members)
		return protoreflect.ValueOfMessage(m), true
	}
	v.unspecified = true
	return protoreflect.Value{}, false
}

func (v *vmVerdict) readMessage(u *j5schema.VerifUniverse, md *j5schema.VerifMessage, members []jmember) *j5schema.VerifDynMessage {
	out := j5schema.VerifNewDynMessage(md)
	isRoot := md.FullName() == "m.v1.Root"
	var flat, deepest *j5schema.VerifDynMessage
	resolve := func(key string) (*j5schema.VerifDynMessage, protoreflect.FieldDescriptor) {
		if isRoot {
			switch key {
			case "fa", "fn": // members of the flattened object fl
				fm := u.Message("m.v1.Flat")
				if flat == nil {
					flat = j5schema.VerifNewDynMessage(fm)
					out.Set(md.Fields().ByName("fl"), protoreflect.ValueOfMessage(flat))
				}
				return flat, fm.Fields().ByJSONName(key)
			case "da": // member of Deep, flattened into Flat, flattened into Root
				fm, dm := u.Message("m.v1.Flat"), u.Message("m.v1.Deep")
				if flat == nil {
					flat = j5schema.VerifNewDynMessage(fm)
					out.Set(md.Fields().ByName("fl"), protoreflect.ValueOfMessage(flat))
				}
				if deepest == nil {
					deepest = j5schema.VerifNewDynMessage(dm)
					flat.Set(fm.Fields().ByName("deep"), protoreflect.ValueOfMessage(deepest))
				}
				return deepest, dm.Fields().ByJSONName(key)
			case "fl", "px", "pn", "deep": // not properties themselves (flattened / inside the exposed oneof)
				return nil, nil
			}
		}
		f := md.Fields().ByJSONName(key)
		if f == nil {
			return nil, nil
		}
		return out, f
	}
	v.readMembers(u, members, md.FullName() == "m.v1.Choice", resolve, func(ms []jmember) {
		// the exposed oneof "pick" of Root: an object holding one of px / pn
		v.readMembers(u, ms, true, func(key string) (*j5schema.VerifDynMessage, protoreflect.FieldDescriptor) {
			if key == "px" || key == "pn" {
				return out, md.Fields().ByJSONName(key)
			}
			return nil, nil
		}, nil, false)
	}, isRoot)
	return out
}

// readMembers: the members of one JSON object against a set of properties
// (resolve gives the message and field a key stands for). pick handles the
// value of Root's exposed oneof.
func (v *vmVerdict) readMembers(u *j5schema.VerifUniverse, members []jmember, isOneof bool,
	resolve func(string) (*j5schema.VerifDynMessage, protoreflect.FieldDescriptor), pick func([]jmember), hasPick bool) {
	seen := map[string]bool{}
	keys := 0
	firstKey, typeName, hasType := "", "", false
	known := func(key string) bool {
		if hasPick && key == "pick" {
			return true
		}
		_, f := resolve(key)
		return f != nil
	}
	for _, m := range members {
		if m.key == "!type" {
			if !isOneof {
				v.fail = true // not a property of an object
				continue
			}
			switch m.val.shape {
			case jStr:
				typeName, hasType = m.val.s, true
			case jNull:
				v.unspecified = true
			default:
				v.fail = true
			}
			continue
		}
		if hasPick && m.key == "pick" {
			if m.val.shape == jNull {
				continue
			}
			if seen[m.key] {
				v.fail = true
				continue
			}
			seen[m.key] = true
			if m.val.shape != jObj {
				v.fail = true
				continue
			}
			pick(m.val.members)
			continue
		}
		out, f := resolve(m.key)
		if f == nil {
			v.fail = true // unknown key
			continue
		}
		if m.val.shape == jNull {
			if isOneof {
				v.unspecified = true
			}
			continue // explicit null: absent
		}
		if seen[m.key] {
			v.fail = true // duplicate member
			continue
		}
		seen[m.key] = true
		if keys == 0 {
			firstKey = m.key
		}
		keys++
		switch {
		case f.IsList():
			if m.val.shape != jArr {
				v.fail = true
				continue
			}
			l := out.Mutable(f).List()
			for _, e := range m.val.elems {
				if ev, ok := v.readSingular(u, f, e); ok {
					l.Append(ev)
				}
			}
		case f.IsMap():
			if m.val.shape != jObj {
				v.fail = true
				continue
			}
			mp := out.Mutable(f).Map()
			ks := map[string]bool{}
			for _, e := range m.val.members {
				if ks[e.key] {
					v.unspecified = true // repeated map key: not specified which wins, or whether it is an error
				}
				ks[e.key] = true
				if ev, ok := v.readSingular(u, f.MapValue(), e.val); ok {
					mp.Set(protoreflect.ValueOfString(e.key).MapKey(), ev)
				}
			}
		default:
			if sv, ok := v.readSingular(u, f, m.val); ok {
				out.Set(f, sv)
			}
		}
	}
	if isOneof {
		if keys > 1 {
			v.fail = true
		}
		if hasType && keys == 1 && typeName != firstKey {
			v.fail = true
		}
		if hasType && keys == 0 {
			if !known(typeName) {
				v.fail = true
			} else {
				v.unspecified = true // "!type" alone selects an empty arm
			}
		}
	}
}

// vmSame: equal content, where an unset message field equals one set to a
// message without content (how an empty JSON object is stored is not specified)
func vmSame(a, b protoreflect.Message, tag string) {
	fields := a.Descriptor().Fields()
	for i := 0; i < fields.Len(); i++ {
		f := fields.Get(i)
		if f.Kind() == protoreflect.MessageKind && !f.IsList() && !f.IsMap() {
			if a.Has(f) && b.Has(f) {
				vmSame(a.Get(f).Message(), b.Get(f).Message(), tag)
			} else if a.Has(f) {
				vmSame(a.Get(f).Message(), j5schema.VerifNewDynMessage(a.Get(f).Message().Descriptor().(*j5schema.VerifMessage)), tag)
			} else if b.Has(f) {
				vmSame(j5schema.VerifNewDynMessage(b.Get(f).Message().Descriptor().(*j5schema.VerifMessage)), b.Get(f).Message(), tag)
			}
			continue
		}
		verifAssert(a.Has(f) == b.Has(f), "same-presence"+tag)
		if !a.Has(f) || !b.Has(f) {
			continue
		}
		va, vb := a.Get(f), b.Get(f)
		switch {
		case f.IsList():
			la, lb := va.List(), vb.List()
			verifAssert(la.Len() == lb.Len(), "same-list-length"+tag)
			if la.Len() != lb.Len() {
				continue
			}
			for k := 0; k < la.Len(); k++ {
				if f.Kind() == protoreflect.MessageKind {
					vmSame(la.Get(k).Message(), lb.Get(k).Message(), tag)
				} else {
					vmValueEqual(f, la.Get(k), lb.Get(k), tag)
				}
			}
		case f.IsMap():
			ma, mb := va.Map(), vb.Map()
			verifAssert(ma.Len() == mb.Len(), "same-map-size"+tag)
			ma.Range(func(k protoreflect.MapKey, v protoreflect.Value) bool {
				verifAssert(mb.Has(k), "same-map-keys"+tag)
				if mb.Has(k) {
					if f.MapValue().Kind() == protoreflect.MessageKind {
						vmSame(v.Message(), mb.Get(k).Message(), tag)
					} else {
						vmValueEqual(f.MapValue(), v, mb.Get(k), tag)
					}
				}
				return true
			})
		default:
			vmValueEqual(f, va, vb, tag)
		}
	}
}

var jRootKeys = []string{"a", "n", "o", "w", "r", "ro", "m", "mo", "zz", "!type", "fa", "da", "fl", "pick", "px"}

func HarnessMessageDecode() {
	u := verifMsgUniverse()
	M := verifParam("M", 2)
	root := &jnode{shape: jObj}
	// the first member is arbitrary (key x shape x nested content); further
	// members are plain scalars, for duplicates and member interplay
	k := ndIntRange("members", 0, M)
	for i := 0; i < k; i++ {
		key := ""
		if i == 0 {
			key = jRootKeys[ndChoice("key", len(jRootKeys))]
		}
		var val *jnode
		if i == 0 {
			val = jValue(key)
		} else {
			key = []string{root.members[0].key, "a", "zz"}[ndChoice("key2", 3)]
			val = jScalar(key+"-2", jNull+1, 1)
		}
		root.members = append(root.members, jmember{key: key, val: val})
	}
	doc := &verifDoc{}
	doc.node(root)
	verifToks, verifTokPos = doc.toks, 0
	c := &Codec{refl: j5reflect.New()}
	msg := j5schema.VerifNewDynMessage(u.Message("m.v1.Root"))
	verifTermBudget(8000000)
	err := c.decode(doc.text, msg)
	verifEndTermBudget()
	v := &vmVerdict{}
	want := v.readMessage(u, u.Message("m.v1.Root"), root.members)
	if v.fail {
		verifAssert(err != nil, "faulty-document-rejected")
		return
	}
	if v.unspecified {
		return
	}
	verifAssert(err == nil, "well-formed-document-accepted")
	if err != nil {
		return
	}
	vmSame(want, msg, "-decoded")
	vmSame(msg, want, "-decoded-reverse")
}

// ---------- URL query decoding ----------

func verifStatusError(code codes.Code, msg string) error { return errors.New(msg) }

var qKeys = []string{"a", "n", "os", "b", "e", "o.a", "o.n", "o", "w.a", "w", "r", "rs", "m", "mo", "zz", "o.zz", "a.x", "r.x", ""}
var qVals = []string{"x", "7", "", `{"n":7}`}

// HarnessQueryDecode: Codec.decodeQuery (propertyAtPath, CreateField, scalar /
// array-of-scalar / container values) on url.Values with up to K keys drawn
// from dotted paths into every field kind (and unknown, empty and too-deep
// paths), each with 0..2 values. No url.Values makes it panic; the verdict and
// the decoded message do not depend on the order in which Go ranges over the
// map; a single scalar, array or nested-scalar parameter is stored exactly and
// the listed faults are rejected.
func HarnessQueryDecode() {
	u := verifMsgUniverse()
	K := verifParam("K", 2)
	k := ndIntRange("keys", 0, K)
	q := url.Values{}
	var firstKey string
	var firstVals []string
	jsonVals := 0
	for i := 0; i < k; i++ {
		key := ""
		if i == 0 {
			key = qKeys[ndChoice("key", len(qKeys))]
		} else {
			// second parameter: the ones that share a container or a property with others
			key = []string{"o", "o.n", "o.a", "a", "w.a", "r"}[ndChoice("key2", 6)]
		}
		if _, dup := q[key]; dup {
			verifAssume(false)
		}
		nv := 1
		if k == 1 {
			nv = ndIntRange("values", 0, 2)
		}
		vals := []string{}
		for j := 0; j < nv; j++ {
			v := qVals[ndChoice("value", len(qVals))]
			if v == qVals[3] {
				jsonVals++
				// the token stream encoding/json would produce for this value
				var toks []json.Token
				refParseJSON([]byte(v), 0, &toks)
				verifToks, verifTokPos = toks, 0
			}
			vals = append(vals, v)
		}
		if nv == 0 && ndBool("nilSlice") {
			vals = nil
		}
		q[key] = vals
		if i == 0 {
			firstKey, firstVals = key, vals
		}
	}
	verifAssume(jsonVals <= 1) // one token stream per run
	c := &Codec{refl: j5reflect.New()}
	m1 := j5schema.VerifNewDynMessage(u.Message("m.v1.Root"))
	verifTermBudget(8000000)
	err1 := c.decodeQuery(q, m1)
	verifEndTermBudget()
	// again, under another iteration order of the same map
	verifTokPos = 0
	m2 := j5schema.VerifNewDynMessage(u.Message("m.v1.Root"))
	verifTermBudget(8000000)
	err2 := c.decodeQuery(q, m2)
	verifEndTermBudget()
	verifAssert((err1 == nil) == (err2 == nil), "verdict-independent-of-map-order")
	if err1 == nil && err2 == nil {
		vmSame(m1, m2, "-map-order")
		vmSame(m2, m1, "-map-order-reverse")
	}
	if k != 1 {
		return
	}
	// one parameter: exact expectations
	rd := u.Message("m.v1.Root")
	want := j5schema.VerifNewDynMessage(rd)
	fail, unspecified := false, false
	if len(firstVals) == 0 {
		fail = true // a parameter without any value carries nothing to store
	}
	one := func() (string, bool) {
		if len(firstVals) != 1 {
			fail = true
			return "", false
		}
		return firstVals[0], true
	}
	switch firstKey {
	case "a", "os":
		if v, ok := one(); ok {
			if v == "" && firstKey == "a" {
				unspecified = true // empty value of an implicit-presence string
			}
			want.Set(rd.Fields().ByName(protoreflect.Name(firstKey)), protoreflect.ValueOfString(v))
		}
	case "n":
		if v, ok := one(); ok {
			if v == "7" {
				want.Set(rd.Fields().ByName("n"), protoreflect.ValueOfInt32(7))
			} else {
				fail = true
			}
		}
	case "o.a":
		if v, ok := one(); ok {
			in := j5schema.VerifNewDynMessage(u.Message("m.v1.Inner"))
			in.Set(in.Descriptor().Fields().ByName("a"), protoreflect.ValueOfString(v))
			want.Set(rd.Fields().ByName("o"), protoreflect.ValueOfMessage(in))
		}
	case "o.n":
		if v, ok := one(); ok {
			if v == "7" {
				in := j5schema.VerifNewDynMessage(u.Message("m.v1.Inner"))
				in.Set(in.Descriptor().Fields().ByName("n"), protoreflect.ValueOfInt32(7))
				want.Set(rd.Fields().ByName("o"), protoreflect.ValueOfMessage(in))
			} else {
				fail = true
			}
		}
	case "r":
		l := want.Mutable(rd.Fields().ByName("r")).List()
		for _, v := range firstVals {
			if v != "7" {
				fail = true
			}
			l.Append(protoreflect.ValueOfInt32(7))
		}
	case "rs":
		l := want.Mutable(rd.Fields().ByName("rs")).List()
		for _, v := range firstVals {
			l.Append(protoreflect.ValueOfString(v))
		}
	case "o":
		if v, ok := one(); ok {
			if v == qVals[3] {
				in := j5schema.VerifNewDynMessage(u.Message("m.v1.Inner"))
				in.Set(in.Descriptor().Fields().ByName("n"), protoreflect.ValueOfInt32(7))
				want.Set(rd.Fields().ByName("o"), protoreflect.ValueOfMessage(in))
			} else {
				fail = true
			}
		}
	case "zz", "o.zz", "a.x", "r.x", "":
		fail = true
	default:
		unspecified = true
	}
	if fail {
		verifAssert(err1 != nil, "faulty-query-rejected")
		return
	}
	if unspecified {
		return
	}
	verifAssert(err1 == nil, "well-formed-query-accepted")
	if err1 == nil {
		vmSame(want, m1, "-query")
		vmSame(m1, want, "-query-reverse")
	}
}

// HarnessUnsupportedTarget: C06 names "any target message type". A message
// type J5 cannot represent (a fixed64 field, a map with non-string keys is
// similar) makes schema reflection fail; every codec entry point must then
// return an error (or succeed), never panic.
func HarnessUnsupportedTarget() {
	bad := &descriptorpb.DescriptorProto{Name: proto.String("Bad"), Field: []*descriptorpb.FieldDescriptorProto{
		vmField("f", 1, descriptorpb.FieldDescriptorProto_TYPE_FIXED64, ""), vmField("a", 2, dtStr, "")}}
	fdp := &descriptorpb.FileDescriptorProto{Name: proto.String("b/v1/b.proto"), Package: proto.String("b.v1"), Syntax: proto.String("proto3"),
		MessageType: []*descriptorpb.DescriptorProto{bad}}
	u := j5schema.VerifNewUniverse(fdp)
	c := &Codec{refl: j5reflect.New()}
	msg := j5schema.VerifNewDynMessage(u.Message("b.v1.Bad"))
	switch ndChoice("entry", 3) {
	case 0:
		_, err := c.encode(msg)
		verifAssert(err != nil, "unrepresentable-type-not-encoded")
	case 1:
		doc := &verifDoc{}
		doc.delim('{')
		if ndBool("member") {
			doc.str("a")
			doc.sep(':')
			doc.str("x")
		}
		doc.delim('}')
		verifToks, verifTokPos = doc.toks, 0
		err := c.decode(doc.text, msg)
		verifAssert(err != nil, "unrepresentable-type-not-decoded")
	case 2:
		q := url.Values{}
		if ndBool("parameter") {
			q["a"] = []string{"x"}
		}
		err := c.decodeQuery(q, msg)
		verifReach("query-returned")
		_ = err
	}
}

// ---------- C10: one Codec used from two goroutines ----------

// HarnessConcurrentCodec: two goroutines encode (and decode) on one shared
// Codec — shared Reflector, schema cache and whatever the encoder keeps
// between calls (buffers, pools). Every access to memory both can reach is
// checked for races (vector clocks), and each result must be what the same
// call gives when run alone.
func HarnessConcurrentCodec() {
	u := verifMsgUniverse()
	rd := u.Message("m.v1.Root")
	mk := func(tag string) *j5schema.VerifDynMessage {
		m := j5schema.VerifNewDynMessage(rd)
		m.Set(rd.Fields().ByName("a"), protoreflect.ValueOfString(tag))
		if ndBool("nested-" + tag) {
			in := j5schema.VerifNewDynMessage(u.Message("m.v1.Inner"))
			in.Set(in.Descriptor().Fields().ByName("n"), protoreflect.ValueOfInt32(7))
			m.Set(rd.Fields().ByName("o"), protoreflect.ValueOfMessage(in))
		}
		return m
	}
	m1, m2 := mk("first"), mk("second")
	c := &Codec{refl: j5reflect.New()}
	if ndBool("warm") {
		if _, err := c.encode(mk("warm")); err != nil {
			verifFail("warm-up-encodes")
		}
	}
	var o1, o2 []byte
	var e1, e2 error
	verifSpawn(func() {
		var b []byte
		b, e1 = c.encode(m1)
		o1 = append([]byte{}, b...)
	})
	verifSpawn(func() {
		var b []byte
		b, e2 = c.encode(m2)
		o2 = append([]byte{}, b...)
	})
	verifJoin()
	solo := &Codec{refl: j5reflect.New()}
	s1, se1 := solo.encode(m1)
	s2, se2 := solo.encode(m2)
	verifAssert(e1 == nil && e2 == nil && se1 == nil && se2 == nil, "all-encodes-succeed")
	verifAssert(string(o1) == string(s1), "first-encoding-as-alone")
	verifAssert(string(o2) == string(s2), "second-encoding-as-alone")
}
