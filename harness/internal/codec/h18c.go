package codec

// C18, last clause: "the codec can encode and decode an empty and a populated
// message of every reflected type". The file is the one
// lib/j5reflect.HarnessReflectArbitraryProto draws (every proto3 scalar kind,
// repeated / optional / oneof placement, recursion, enums with and without a
// zero UNSPECIFIED value, one annotation kind per field, matching or not);
// whenever the real schema cache accepts message M, the real codec must encode
// an empty M and an M with every field populated, the text must be one JSON
// value, and decoding it must give the same content.

import (
	"encoding/json"

	"github.com/pentops/j5/lib/j5reflect"
	"github.com/pentops/j5/lib/j5schema"
	"google.golang.org/protobuf/reflect/protoreflect"
)

func verifSample(fd protoreflect.FieldDescriptor) (protoreflect.Value, bool) {
	switch fd.Kind() {
	case protoreflect.BoolKind:
		return protoreflect.ValueOfBool(true), true
	case protoreflect.Int32Kind, protoreflect.Sint32Kind, protoreflect.Sfixed32Kind:
		return protoreflect.ValueOfInt32(7), true
	case protoreflect.Int64Kind, protoreflect.Sint64Kind, protoreflect.Sfixed64Kind:
		return protoreflect.ValueOfInt64(7), true
	case protoreflect.Uint32Kind, protoreflect.Fixed32Kind:
		return protoreflect.ValueOfUint32(7), true
	case protoreflect.Uint64Kind, protoreflect.Fixed64Kind:
		return protoreflect.ValueOfUint64(7), true
	case protoreflect.StringKind:
		return protoreflect.ValueOfString("x"), true
	case protoreflect.BytesKind:
		return protoreflect.ValueOfBytes([]byte{1}), true
	case protoreflect.EnumKind:
		vals := fd.Enum().Values()
		return protoreflect.ValueOfEnum(vals.Get(vals.Len() - 1).Number()), true
	case protoreflect.MessageKind:
		if md, ok := fd.Message().(*j5schema.VerifMessage); ok && (md.FullName() == "t.v1.M" || md.FullName() == "t.v1.N") {
			return protoreflect.ValueOfMessage(j5schema.VerifNewDynMessage(md)), true
		}
	}
	// floats (formatting is opaque to the engine) and the well-known types
	// (stub descriptors here) are left unset
	return protoreflect.Value{}, false
}

func verifPopulate(m *j5schema.VerifDynMessage) {
	fields := m.Descriptor().Fields()
	oneofDone := false
	for i := 0; i < fields.Len(); i++ {
		fd := fields.Get(i)
		if od := fd.ContainingOneof(); od != nil && !od.IsSynthetic() {
			if oneofDone {
				continue
			}
			oneofDone = true
		}
		switch {
		case fd.IsMap():
			if v, ok := verifSample(fd.MapValue()); ok {
				m.Mutable(fd).Map().Set(protoreflect.ValueOfString("k").MapKey(), v)
			}
		case fd.IsList():
			if v, ok := verifSample(fd); ok {
				m.Mutable(fd).List().Append(v)
			}
		default:
			if v, ok := verifSample(fd); ok {
				m.Set(fd, v)
			}
		}
	}
}

func verifCodecRoundTrip(c *Codec, u *j5schema.VerifUniverse, msg *j5schema.VerifDynMessage, tag string) {
	verifTermBudget(8000000)
	out, err := c.encode(msg)
	verifEndTermBudget()
	verifAssert(err == nil, "reflected-type-encodes"+tag)
	if err != nil {
		return
	}
	var toks []json.Token
	_, end, ok := refParseJSON(out, 0, &toks)
	verifAssert(ok && end == len(out), "encoding-is-one-json-value"+tag)
	if !ok || end != len(out) {
		return
	}
	verifToks, verifTokPos = toks, 0
	back := j5schema.VerifNewDynMessage(u.Message("t.v1.M"))
	verifTermBudget(8000000)
	derr := c.decode(out, back)
	verifEndTermBudget()
	verifAssert(derr == nil, "own-encoding-decodes"+tag)
	if derr != nil {
		return
	}
	vmSame(msg, back, tag)
	vmSame(back, msg, tag+"-reverse")
}

func HarnessCodecOnReflectedTypes() {
	plain := verifParam("plain", 0) == 1 // no annotations: they do not change what the codec does with a value
	fdp := j5reflect.VerifArbitraryFile(
		func(name string, n int) int {
			if plain && (name == "validate" || name == "list" || name == "j5ext") {
				return 0
			}
			return ndChoice(name, n)
		},
		func(name string) bool { return ndBool(name) },
		func(name string, lo, hi int) int { return ndIntRange(name, lo, hi) },
		verifParam("F", 1))
	u := j5schema.VerifNewUniverse(fdp)
	md := u.Message("t.v1.M")
	cache := j5schema.NewSchemaCache()
	verifTermBudget(8000000)
	_, serr := cache.Schema(md)
	verifEndTermBudget()
	if serr != nil {
		verifReach("type-not-reflected")
		return
	}
	c := &Codec{refl: j5reflect.NewWithCache(cache)}
	verifCodecRoundTrip(c, u, j5schema.VerifNewDynMessage(md), ":empty")
	full := j5schema.VerifNewDynMessage(md)
	verifPopulate(full)
	verifCodecRoundTrip(c, u, full, ":populated")
}
