package genlsp

import (
	"context"

	"github.com/pentops/j5/internal/bcl/internal/parser"
	"go.lsp.dev/protocol"
)

// C19, the last step: the edits as the language server hands them to the
// editor (astFormatter.Format turns parser.FmtDiffs into LSP TextEdits with
// whole-line ranges). Applied to the document the way an LSP client does, they
// must give the formatter's output up to trailing blank lines, and the ranges
// must be ordered, non-overlapping and inside the document (an end line equal
// to the number of lines denotes the end of the document).

var verifStatements = []string{"a=1", "a = 1", "blk t {", "}", "  x = 2", "s = \"e\\\nf\"", "// c", "/* b1\nb2 */"}

func verifLines(s string) []string {
	out := []string{}
	start := 0
	for i := 0; i < len(s); i++ {
		if s[i] == '\n' {
			out = append(out, s[start:i])
			start = i + 1
		}
	}
	return append(out, s[start:])
}

func verifTrimBlank(lines []string) []string {
	for len(lines) > 0 {
		l := lines[len(lines)-1]
		blank := true
		for i := 0; i < len(l); i++ {
			if l[i] != ' ' && l[i] != '\t' && l[i] != '\r' {
				blank = false
			}
		}
		if !blank {
			break
		}
		lines = lines[:len(lines)-1]
	}
	return lines
}

func HarnessLSPFormat() {
	n := ndIntRange("statements", 1, verifParam("S", 2))
	text := ""
	depth := 0
	for i := 0; i < n; i++ {
		st := verifStatements[ndChoice("statement", len(verifStatements))]
		if st == "blk t {" {
			depth++
		}
		if st == "}" {
			if depth == 0 {
				st = "a = 1"
			} else {
				depth--
			}
		}
		if i > 0 {
			text += "\n"
		}
		text += st
	}
	for depth > 0 {
		text += "\n}"
		depth--
	}
	if ndBool("finalNewline") {
		text += "\n"
	}
	want, err := parser.Fmt(text)
	if err != nil {
		verifReach("formatter-rejects")
		return
	}
	edits, err := astFormatter{}.Format(context.Background(), &protocol.TextDocumentItem{Text: text})
	verifAssert(err == nil, "edits-computed")
	if err != nil {
		return
	}
	lines := verifLines(text)
	nl := uint32(len(lines))
	last := uint32(0)
	res := ""
	pos := uint32(0)
	for _, e := range edits {
		s, t := e.Range.Start, e.Range.End
		verifAssert(s.Character == 0 && t.Character == 0, "whole-line-ranges")
		verifAssert(s.Line <= t.Line && t.Line <= nl, "range-inside-document")
		verifAssert(s.Line >= last, "ranges-ascending-non-overlapping")
		last = t.Line
		if s.Line < pos || s.Line > nl || t.Line > nl || t.Line < s.Line {
			return
		}
		for k := pos; k < s.Line; k++ {
			res += lines[k] + "\n"
		}
		res += e.NewText
		pos = t.Line
	}
	for k := pos; k < nl; k++ {
		res += lines[k]
		if k < nl-1 {
			res += "\n"
		}
	}
	got, exp := verifTrimBlank(verifLines(res)), verifTrimBlank(verifLines(want))
	same := len(got) == len(exp)
	if same {
		for i := range got {
			same = verifAll(same, got[i] == exp[i])
		}
	}
	verifAssert(same, "applied-lsp-edits-equal-formatter-output")
}
