package parser

// C09 / C19 harnesses: the formatter on statement templates with symbolic
// holes. The oracle is the real parser itself: input and output are lexed and
// walked by the real code and the resulting fragment lists are compared.

// verifHole draws <= max symbolic bytes: ASCII exact, and (when wide > 0) one
// arbitrary multi-byte rune.
func verifHole(max int, wide int) string {
	n := ndIntRange("hole", 0, max)
	s := ""
	for i := 0; i < n; i++ {
		r := verifRune(&wide)
		s += string(r)
	}
	return s
}

const verifKinds = 16

var verifKindTag = []string{":string", ":regex", ":bare-value", ":array", ":nested-array", ":block-type", ":block-tag", ":inline-description",
	":header-comment", ":line-comment", ":block-comment", ":description", ":assign-comment", ":free", ":block-qualifier", ":header-description-then-description"}

// verifStatement renders statement template `kind` around the hole. The
// second result says whether the statement opens a block that the template
// closes on a following line.
func verifStatement(kind int, hole string) string {
	switch kind {
	case 0:
		return "a = \"" + hole + "\"\n"
	case 1:
		return "a = /" + hole + "/\n"
	case 2:
		return "a = " + hole + "\n"
	case 3:
		return "a.b += [" + hole + ", \"x\"]\n"
	case 4:
		return "a = [[1, " + hole + "], 2]\n"
	case 5:
		return hole + " t1 t2 {\n}\n"
	case 6:
		return "blk " + hole + ":q {\n\tk = 1\n}\n"
	case 7:
		return "blk t | " + hole + "\n"
	case 8:
		return "blk t //" + hole + "\n"
	case 9:
		return "//" + hole + "\n"
	case 10:
		return "/*" + hole + "*/\n"
	case 11:
		return "| " + hole + "\n| w2\n"
	case 12:
		return "a = 1 //" + hole + "\n"
	case 15:
		// an inline header description directly followed by description lines
		return "blk t | " + hole + "\n| w2\n| w3\n"
	case 14:
		// the hole in qualifier position (a qualifier is read like a tag: it may carry a ! or ? mark)
		return "blk t:" + hole + " {\n}\n"
	}
	return hole + "\n"
}

func verifFragments(src string) ([]Fragment, bool) {
	l := NewLexer(src)
	toks, ok, err := l.AllTokens(true)
	if err != nil || !ok {
		return nil, false
	}
	ww := &Walker{tokens: toks, failFast: true}
	frs, err := ww.walkFragments()
	if err != nil || len(ww.errors) > 0 {
		return nil, false
	}
	return frs, true
}

func verifSameRef(a, b Reference) bool {
	if len(a.Idents) != len(b.Idents) {
		return false
	}
	ok := true
	for i := range a.Idents {
		ok = verifAll(ok, a.Idents[i].Value == b.Idents[i].Value)
	}
	return ok
}

func verifSameValue(a, b Value) bool {
	if (a.array == nil) != (b.array == nil) {
		return false
	}
	if a.array == nil {
		return verifAll(a.token.Type == b.token.Type, a.token.Lit == b.token.Lit)
	}
	if len(a.array) != len(b.array) {
		return false
	}
	ok := true
	for i := range a.array {
		ok = verifAll(ok, verifSameValue(a.array[i], b.array[i]))
	}
	return ok
}

func verifSameTag(a, b TagValue) bool {
	if (a.Reference == nil) != (b.Reference == nil) || (a.Value == nil) != (b.Value == nil) {
		return false
	}
	ok := a.Mark == b.Mark
	if a.Reference != nil {
		ok = verifAll(ok, verifSameRef(*a.Reference, *b.Reference))
	}
	if a.Value != nil {
		ok = verifAll(ok, verifSameValue(*a.Value, *b.Value))
	}
	return ok
}

func verifSameComment(a, b *Comment) bool {
	if (a == nil) != (b == nil) {
		return false
	}
	if a == nil {
		return true
	}
	return a.Value == b.Value
}

// verifWords splits a description into words; "" marks a paragraph break.
func verifWords(s string) []string {
	out := []string{}
	cur := ""
	lineEmpty := true
	lastBreak := true // swallow leading breaks
	for i := 0; i < len(s); i++ {
		ch := s[i]
		if ch == '\n' {
			if cur != "" {
				out = append(out, cur)
				cur = ""
			}
			if lineEmpty && !lastBreak && i > 0 {
				out = append(out, "")
				lastBreak = true
			}
			lineEmpty = true
			continue
		}
		if ch == ' ' {
			if cur != "" {
				out = append(out, cur)
				cur = ""
			}
			continue
		}
		lineEmpty = false
		lastBreak = false
		cur += string(rune(ch))
	}
	if cur != "" {
		out = append(out, cur)
	}
	// a trailing paragraph break carries no words after it
	for len(out) > 0 && out[len(out)-1] == "" {
		out = out[:len(out)-1]
	}
	return out
}

func verifSameWords(a, b string) bool {
	wa, wb := verifWords(a), verifWords(b)
	if len(wa) != len(wb) {
		return false
	}
	ok := true
	for i := range wa {
		ok = verifAll(ok, wa[i] == wb[i])
	}
	return ok
}

// verifDropEmptyDescriptions removes stand-alone descriptions without any word:
// they carry no words or paragraph breaks, so whether the formatter keeps them
// is not part of the property.
func verifDropEmptyDescriptions(in []Fragment) []Fragment {
	out := []Fragment{}
	for _, f := range in {
		if d, ok := f.(Description); ok && len(verifWords(d.Value)) == 0 {
			continue
		}
		out = append(out, f)
	}
	return out
}

func verifSameFragments(a, b []Fragment) bool {
	a, b = verifDropEmptyDescriptions(a), verifDropEmptyDescriptions(b)
	if len(a) != len(b) {
		return false
	}
	ok := true
	for i := range a {
		switch x := a[i].(type) {
		case BlockHeader:
			y, same := b[i].(BlockHeader)
			if !same || len(x.Tags) != len(y.Tags) || len(x.Qualifiers) != len(y.Qualifiers) || x.Open != y.Open || (x.Description == nil) != (y.Description == nil) {
				return false
			}
			ok = verifAll(ok, verifSameRef(x.Type, y.Type), verifSameComment(x.Comment, y.Comment))
			for k := range x.Tags {
				ok = verifAll(ok, verifSameTag(x.Tags[k], y.Tags[k]))
			}
			for k := range x.Qualifiers {
				ok = verifAll(ok, verifSameTag(x.Qualifiers[k], y.Qualifiers[k]))
			}
			if x.Description != nil {
				ok = verifAll(ok, x.Description.Value == y.Description.Value)
			}
		case CloseBlock:
			if _, same := b[i].(CloseBlock); !same {
				return false
			}
		case Assignment:
			y, same := b[i].(Assignment)
			if !same || x.Append != y.Append {
				return false
			}
			ok = verifAll(ok, verifSameRef(x.Key, y.Key), verifSameValue(x.Value, y.Value), verifSameComment(x.Comment, y.Comment))
		case Description:
			y, same := b[i].(Description)
			if !same {
				return false
			}
			ok = verifAll(ok, verifSameWords(x.Value, y.Value))
		case Comment:
			y, same := b[i].(Comment)
			if !same {
				return false
			}
			ok = verifAll(ok, x.Token.Type == y.Token.Type, x.Value == y.Value)
		default:
			return false
		}
	}
	return ok
}

// verifFmtProperty asserts C09 on one accepted input.
func verifFmtProperty(input string, tag string) {
	f1, ok := verifFragments(input)
	if !ok {
		verifReach("input-rejected")
		return // not accepted by the parser: outside the quantifier
	}
	if _, err := ParseFile(input, true); err != nil {
		return // e.g. unbalanced braces: fragments fine, file not accepted
	}
	verifReach("input-accepted")
	out, err := Fmt(input)
	verifAssert(err == nil, "fmt-accepts-what-the-parser-accepts"+tag)
	if err != nil {
		return
	}
	f2, ok2 := verifFragments(out)
	verifAssert(ok2, "output-parses"+tag)
	if !ok2 {
		return
	}
	_, perr := ParseFile(out, true)
	verifAssert(perr == nil, "output-is-a-file"+tag)
	verifAssert(verifSameFragments(f1, f2), "same-document"+tag)
	out2, err := Fmt(out)
	verifAssert(err == nil, "refmt-ok"+tag)
	if err == nil {
		verifAssert(out2 == out, "idempotent"+tag)
	}
}

// H09a: one statement template, one symbolic hole.
func HarnessFmtStatement() {
	kind := ndChoice("kind", verifKinds)
	if only := verifParam("kind", -1); only >= 0 && kind != only {
		return
	}
	hole := verifHole(verifParam("H", 2), verifParam("wide", 0))
	verifKnownClasses(kind, hole)
	verifFmtProperty(verifStatement(kind, hole), verifKindTag[kind])
}

// verifKnownClasses declares the input classes of recorded findings (if any
// are listed as open in known_findings.json; otherwise these are ignored).
func verifKnownClasses(kind int, hole string) {
}

// H09b layout: two fixed statements with symbolic blank lines, indentation and
// whitespace-only gap lines around them.
func verifBlank() string {
	switch ndChoice("blank", 3) {
	case 0:
		return "\n"
	case 1:
		return " \n"
	}
	return "\t\n"
}

func verifIndent() string {
	switch ndChoice("indent", 4) {
	case 0:
		return ""
	case 1:
		return " "
	case 2:
		return "\t"
	}
	return "  \t"
}

var verifFixedStatements = []string{
	"a = 1\n",
	"blk t {\n",
	"}\n",
	"// c\n",
	"| d one\n| d two\n",
	"blk \"s\" ! r:q | inline\n",
	"x.y += [1, \"z\"] // tail\n",
	"/* b1\nb2 */\n",
	"s = \"e\\\nf\"\n",
	"blk \"g\\\nh\"\n",
}

// verifLayoutInput: S statements from the fixed list, with ONE layout feature
// varied at a time (the others at their neutral value), so the space is the sum
// of the feature spaces rather than their product.
func verifLayoutInput() string {
	feature := ndChoice("feature", 7)
	lead, gap, trail := 0, 0, 0
	switch feature {
	case 0:
		lead = ndIntRange("lead", 1, verifParam("lead", 2))
	case 1:
		gap = ndIntRange("gap", 1, verifParam("gap", 3))
	case 2:
		trail = ndIntRange("trail", 1, verifParam("trail", 2))
	}
	s := ""
	for i := 0; i < lead; i++ {
		s += verifBlank()
	}
	n := ndIntRange("stmts", 1, verifParam("S", 2))
	depth := 0
	for k := 0; k < n; k++ {
		st := verifFixedStatements[ndChoice("stmt", len(verifFixedStatements))]
		if st == "blk t {\n" {
			depth++
		}
		if st == "}\n" {
			if depth == 0 {
				st = "a = 1\n"
			} else {
				depth--
			}
		}
		if k > 0 {
			for i := 0; i < gap; i++ {
				s += verifBlank()
			}
		}
		if feature == 3 {
			s += verifIndent()
		}
		if feature == 5 && k < n-1 && (st == "}\n" || st == "/* b1\nb2 */\n") && ndBool("joinNext") {
			// the next statement starts on the line this one ends on
			st = st[:len(st)-1] + " "
		}
		s += st
	}
	for depth > 0 {
		s += "}\n"
		depth--
	}
	for i := 0; i < trail; i++ {
		s += verifBlank()
	}
	if feature == 4 && len(s) > 0 {
		s = s[:len(s)-1]
	}
	if feature == 6 {
		// CRLF line endings (the lexer treats \r as white space)
		out := ""
		for i := 0; i < len(s); i++ {
			if s[i] == '\n' {
				out += "\r"
			}
			out += string(rune(s[i]))
		}
		s = out
	}
	return s
}

func HarnessFmtLayout() {
	verifFmtProperty(verifLayoutInput(), "")
}

// ---- C19 ----

// verifSplitLines is strings.Split(s, "\n") written out (the harness's own
// reference, independent of the code under test).
func verifSplitLines(s string) []string {
	out := []string{}
	start := 0
	for i := 0; i < len(s); i++ {
		if s[i] == '\n' {
			out = append(out, s[start:i])
			start = i + 1
		}
	}
	return append(out, s[start:])
}

// a blank line is empty or holds only ASCII white space
func verifIsBlank(l string) bool {
	ok := true
	for i := 0; i < len(l); i++ {
		ch := l[i]
		ok = verifAll(ok, verifAny(ch == ' ', ch == '\t', ch == '\f', ch == '\v', ch == '\r'))
	}
	return ok
}

func verifTrimTrailingBlank(lines []string) []string {
	for len(lines) > 0 && verifIsBlank(lines[len(lines)-1]) {
		lines = lines[:len(lines)-1]
	}
	return lines
}

// verifDiffProperty asserts C19 on one input the formatter accepts.
func verifDiffProperty(input string, tag string) {
	want, err := Fmt(input)
	if err != nil {
		verifReach("fmt-rejected")
		return
	}
	verifReach("fmt-accepted")
	diffs, derr := FmtDiffs(input)
	verifAssert(derr == nil, "diffs-computed"+tag)
	if derr != nil {
		return
	}
	lines := verifSplitLines(input)
	nl := len(lines)
	// well-formedness
	last := 0
	for _, d := range diffs {
		verifAssert(verifAll(d.FromLine >= 0, d.FromLine <= d.ToLine, d.ToLine <= nl), "edit-range-inside-document"+tag)
		verifAssert(d.FromLine >= last, "edits-ascending-non-overlapping"+tag)
		last = d.ToLine
	}
	// apply
	res := ""
	pos := 0
	for _, d := range diffs {
		if d.FromLine < pos || d.FromLine > nl || d.ToLine > nl || d.ToLine < d.FromLine {
			return // already reported above
		}
		for k := pos; k < d.FromLine; k++ {
			res += lines[k] + "\n"
		}
		res += d.NewText
		pos = d.ToLine
	}
	for k := pos; k < nl; k++ {
		res += lines[k]
		if k < nl-1 {
			res += "\n"
		}
	}
	got := verifTrimTrailingBlank(verifSplitLines(res))
	exp := verifTrimTrailingBlank(verifSplitLines(want))
	same := len(got) == len(exp)
	if same {
		for i := range got {
			same = verifAll(same, got[i] == exp[i])
		}
	}
	verifAssert(same, "applied-edits-equal-formatter-output"+tag)
}

func HarnessFmtDiffStatement() {
	kind := ndChoice("kind", verifKinds)
	if only := verifParam("kind", -1); only >= 0 && kind != only {
		return
	}
	hole := verifHole(verifParam("H", 2), verifParam("wide", 0))
	verifKnownClasses(kind, hole)
	verifDiffProperty(verifStatement(kind, hole), verifKindTag[kind])
}

func HarnessFmtDiffLayout() {
	verifDiffProperty(verifLayoutInput(), "")
}

// H09c: descriptions long enough to be re-wrapped (the wrap width is 80 columns
// less the indentation): words around the wrap boundary, runs of spaces between
// and after them, an optional continuation line or second paragraph, at depth 0
// or inside a block. Same property as everywhere: same document, idempotent.
func verifRepeat(c byte, n int) string {
	b := make([]byte, n)
	for i := range b {
		b[i] = c
	}
	return string(b)
}

func HarnessFmtLongDescription() {
	first := ndIntRange("firstWord", verifParam("minFirst", 70), verifParam("maxFirst", 80))
	spaces := ndIntRange("spaces", 1, 2)
	second := []int{1, 8, 9, 10, 11}[ndChoice("secondWord", 5)]
	trailing := ndIntRange("trailingSpaces", 0, 1)
	cont := ndChoice("continuation", 3)
	depth := ndIntRange("depth", 0, 1)
	ind := ""
	s := ""
	if depth == 1 {
		s += "blk t {\n"
		ind = "    "
		first -= 4
	}
	s += ind + "| " + verifRepeat('a', first) + verifRepeat(' ', spaces) + verifRepeat('b', second) + verifRepeat(' ', trailing) + "\n"
	switch cont {
	case 1:
		s += ind + "| cc\n"
	case 2:
		s += ind + "|\n" + ind + "| cc\n"
	}
	if depth == 1 {
		s += "}\n"
	}
	verifFmtProperty(s, ":long-description")
}
