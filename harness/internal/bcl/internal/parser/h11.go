package parser

import (
	"github.com/pentops/j5/internal/bcl/errpos"
)

// positions are compared through a single key so that the comparison is one
// term, not a cascade of short-circuit branches (lines < 2^40, columns in
// [-1, 4094] — asserted/assumed where positions are drawn).
func verifKey(p Position) int { return p.Line<<12 + (p.Column + 1) }

func verifPosLE(a, b Position) bool { return verifKey(a) <= verifKey(b) }

// verifRune draws one rune of the window: ASCII (exact) unless the harness
// still has non-ASCII budget, in which case any valid scalar value.
func verifRune(budget *int) rune {
	if *budget > 0 && ndBool("wide") {
		*budget--
		r := ndRune("r")
		verifAssume(r >= 0x80 && r <= 0x10FFFF && !(r >= 0xD800 && r < 0xE000))
		return r
	}
	return rune(ndByte("r") & 0x7F)
}

// H11a: one lexer step from an arbitrary state over a window of <= N runes.
// By induction over steps this covers inputs of any length whose individual
// tokens are at most N runes long.
func HarnessLexStep() {
	maxN := verifParam("N", 4)
	wide := verifParam("wide", 0)
	n := ndIntRange("n", 0, maxN)
	data := make([]rune, n)
	for i := range data {
		data[i] = verifRune(&wide)
	}
	line, col, eol := ndInt("line"), ndInt("col"), ndBool("eol")
	verifAssume(line >= 0)
	verifAssume(line < 1000000)
	verifAssume(col >= -1)
	verifAssume(col < 4000) // verifKey packs the column into 12 bits
	l := &Lexer{data: data, line: line, column: col, isEOL: eol}
	// reference positions: pos[k] = position of the k-th consumed rune (k>=1);
	// pos[n+1] is where EOF is reported.
	pos := make([]Position, n+2)
	rl, rc, re := line, col, eol
	for k := 1; k <= n+1; k++ {
		if re {
			rl++
			rc = 0
			re = false
		} else {
			rc++
		}
		if k <= n && data[k-1] == '\n' {
			re = true
		}
		pos[k] = Position{Line: rl, Column: rc}
	}
	inTable := func(p Position, from int) bool {
		ok := false
		for k := from; k <= n+1; k++ {
			if p == pos[k] {
				ok = true
			}
		}
		return ok
	}
	verifTermBudget(200000)
	tok, err := l.NextToken()
	verifEndTermBudget()
	consumed := l.offset
	verifAssert(consumed >= 0 && consumed <= n, "offset-in-range")
	endsAt := func(p Position) bool {
		return (consumed >= 1 && p == pos[consumed]) || (consumed == n && p == pos[n+1])
	}
	if err == nil {
		verifAssert(tok.Type == EOF || consumed >= 1, "progress")
		verifAssert(tok.Type != EOF || consumed == n, "eof-only-at-end")
		verifAssert(verifPosLE(tok.Start, tok.End), "start<=end")
		verifAssert(inTable(tok.Start, 1), "start-is-a-window-position")
		verifAssert(endsAt(tok.End), "end-is-last-consumed-position")
		verifAssert(tok.Type > INVALID && tok.Type < operator_end && tok.Type != SPACE, "token-type-in-alphabet")
	} else {
		pe, ok := errpos.AsError(err)
		verifAssert(ok && pe.Pos != nil, "error-has-position")
		if ok && pe.Pos != nil {
			verifAssert(consumed >= 1, "error-progress")
			verifAssert(pe.Pos.Start == pe.Pos.End && endsAt(pe.Pos.Start), "error-position-is-current")
		}
	}
	// exit state satisfies the entry invariant of the next step
	verifAssert(endsAt(Position{Line: l.line, Column: l.column}), "exit-position")
	if consumed >= 1 && !(consumed == n && (Position{Line: l.line, Column: l.column}) == pos[n+1] && pos[n+1] != pos[n]) {
		verifAssert(l.isEOL == (data[consumed-1] == '\n'), "exit-eol-flag")
	}
}

// ---- H11b: the walker over arbitrary token streams ----

var verifTokenAlphabet = []TokenType{EOL, IDENT, STRING, REGEX, INT, DECIMAL, BOOL, COMMENT, BLOCK_COMMENT, DESCRIPTION,
	ASSIGN, LBRACE, RBRACE, LBRACK, RBRACK, DOT, COMMA, COLON, PLUS, BANG, QUESTION}

func verifLitFor(tt TokenType) string {
	switch tt {
	case EOL:
		return "\n"
	case IDENT:
		return "a"
	case BOOL:
		return "true"
	case INT:
		return "1"
	case DECIMAL:
		return "1.5"
	case STRING, REGEX, COMMENT, BLOCK_COMMENT, DESCRIPTION:
		return "x"
	}
	return tokens[tt]
}

// verifTokens builds n tokens with a symbolic type each and symbolic,
// lexer-consistent positions: Start <= End per token, strictly increasing
// from token to token.
func verifTokens(n int) []Token {
	toks := make([]Token, n)
	prev := Position{Line: 0, Column: -1}
	for i := 0; i < n; i++ {
		k := ndInt("tt")
		verifAssume(k >= 0)
		verifAssume(k < len(verifTokenAlphabet))
		tt := verifTokenAlphabet[k]
		sl, sc, el, ec := ndInt("sl"), ndInt("sc"), ndInt("el"), ndInt("ec")
		verifAssume(sl >= 0)
		verifAssume(sl < 1000)
		verifAssume(sc >= 0)
		verifAssume(sc < 1000)
		verifAssume(el >= 0)
		verifAssume(el < 1000)
		verifAssume(ec >= 0)
		verifAssume(ec < 1000)
		st, en := Position{Line: sl, Column: sc}, Position{Line: el, Column: ec}
		verifAssume(verifPosLT(prev, st))
		verifAssume(verifPosLE(st, en))
		toks[i] = Token{Type: tt, Start: st, End: en}
		prev = en
	}
	// literals do not influence control flow in the walker; fixed representatives
	for i := range toks {
		toks[i].Lit = "x"
	}
	return toks
}

func verifPosLT(a, b Position) bool { return verifKey(a) < verifKey(b) }

type verifSpan struct{ lo, hi Position }

func (s verifSpan) checkNode(n SourceNode, label string) {
	verifAssert(verifPosLE(n.Start, n.End), label+":start<=end")
	verifAssert(verifPosLE(s.lo, n.Start), label+":start-inside")
	verifAssert(verifPosLE(n.End, s.hi), label+":end-inside")
}

func (s verifSpan) checkValue(v Value) {
	s.checkNode(v.SourceNode, "value")
	for _, e := range v.array {
		s.checkValue(e)
	}
}

func (s verifSpan) checkBody(b *Body, depth int) {
	for _, st := range b.Statements {
		switch x := st.(type) {
		case *Block:
			s.checkNode(x.BlockHeader.SourceNode, "block")
			s.checkNode(x.Type.SourceNode, "block-type")
			for _, t := range x.Tags {
				s.checkNode(t.SourceNode, "tag")
			}
			for _, t := range x.Qualifiers {
				s.checkNode(t.SourceNode, "qualifier")
			}
			if x.Description != nil {
				s.checkNode(x.Description.SourceNode, "block-description")
			}
			if x.BlockHeader.Comment != nil {
				s.checkNode(x.BlockHeader.Comment.SourceNode, "block-comment")
			}
			if depth > 0 {
				s.checkBody(&x.Body, depth-1)
			}
		case *Assignment:
			s.checkNode(x.SourceNode, "assignment")
			s.checkNode(x.Key.SourceNode, "assignment-key")
			s.checkValue(x.Value)
		case *Description:
			s.checkNode(x.SourceNode, "description")
		}
	}
}

func (s verifSpan) checkErrors(errs errpos.Errors) {
	for _, e := range errs {
		verifAssert(e != nil && e.Pos != nil, "diagnostic-has-position")
		if e == nil || e.Pos == nil {
			continue
		}
		verifAssert(verifPosLE(e.Pos.Start, e.Pos.End), "diagnostic:start<=end")
		verifAssert(verifPosLE(s.lo, e.Pos.Start), "diagnostic:start-inside")
		verifAssert(verifPosLE(e.Pos.End, s.hi), "diagnostic:end-inside")
	}
}

func HarnessWalkTokens() {
	n := ndIntRange("n", 1, verifParam("N", 4))
	toks := verifTokens(n)
	span := verifSpan{lo: toks[0].Start, hi: toks[n-1].End}
	failFast := ndBool("failFast")
	verifTermBudget(400000)
	tree, err := Walk(toks, failFast)
	verifEndTermBudget()
	if err == nil {
		verifAssert(tree != nil && len(tree.Errors) == 0, "tree-without-diagnostics")
		if tree != nil {
			span.checkBody(&tree.Body, 4)
		}
		return
	}
	verifAssert(err == HadErrors, "only-HadErrors")
	verifAssert(tree != nil && len(tree.Errors) > 0, "error-has-diagnostics")
	if tree != nil {
		span.checkErrors(tree.Errors)
	}
}

// collect-all reports the fail-fast diagnostic first
func HarnessWalkFirstDiagnostic() {
	n := ndIntRange("n", 1, verifParam("N", 4))
	toks := verifTokens(n)
	toks2 := make([]Token, n)
	copy(toks2, toks)
	t1, err1 := Walk(toks, true)
	t2, err2 := Walk(toks2, false)
	verifAssert((err1 == nil) == (err2 == nil), "same-verdict")
	if err1 != nil && err2 != nil && t1 != nil && t2 != nil && len(t1.Errors) > 0 && len(t2.Errors) > 0 {
		a, b := t1.Errors[0], t2.Errors[0]
		verifAssert(a.Pos != nil && b.Pos != nil && a.Pos.Start == b.Pos.Start && a.Pos.End == b.Pos.End, "first-diagnostic-same-position")
	}
}

// ---- H11c: ParseFile end to end on fully symbolic short strings ----

func verifInput(maxN int, wide int) (string, []rune) {
	n := ndIntRange("n", 0, maxN)
	runes := make([]rune, n)
	s := ""
	for i := range runes {
		runes[i] = verifRune(&wide)
		s += string(runes[i])
	}
	return s, runes
}

// verifEndOfInput is the position the lexer reports for EOF: one past the last
// rune (line/column in runes).
func verifEndOfInput(runes []rune) Position {
	line, col, eol := 0, -1, false
	for k := 0; k <= len(runes); k++ {
		if eol {
			line++
			col = 0
			eol = false
		} else {
			col++
		}
		if k < len(runes) && runes[k] == '\n' {
			eol = true
		}
	}
	return Position{Line: line, Column: col}
}

func HarnessParseFile() {
	input, runes := verifInput(verifParam("N", 3), verifParam("wide", 0))
	failFast := ndBool("failFast")
	span := verifSpan{lo: Position{Line: 0, Column: 0}, hi: verifEndOfInput(runes)}
	verifTermBudget(2000000)
	tree, err := ParseFile(input, failFast)
	verifEndTermBudget()
	if err == nil {
		verifAssert(tree != nil && len(tree.Errors) == 0, "tree-without-diagnostics")
		if tree != nil {
			span.checkBody(&tree.Body, 4)
		}
		return
	}
	ews, ok := errpos.AsErrorsWithSource(err)
	verifAssert(ok && ews != nil && len(ews.Errors) > 0, "error-is-nonempty-diagnostic-list")
	if !ok || ews == nil {
		return
	}
	span.checkErrors(ews.Errors)
	// rendering against the source never fails
	out := ews.HumanString(ndIntRange("ctx", 0, 2))
	verifAssert(len(out) > 0, "rendered")
}
