package errpos

import "errors"

var verifGlyphs = []string{"a", "\t", "\u00e9", "\u20ac", "\xff"}

// H11d: rendering a diagnostic against a source never panics, whatever the
// position says (negative, past the end, inside a multi-byte rune).
func HarnessHumanString() {
	nl := ndIntRange("lines", 0, verifParam("L", 2))
	maxB := verifParam("B", 3)
	lines := make([]string, nl)
	for i := range lines {
		n := ndIntRange("len", 0, maxB)
		l := ""
		for k := 0; k < n; k++ {
			// representative glyphs: ASCII, tab (rendered wider), 2- and 3-byte
			// runes (columns are runes, slices are bytes), an invalid byte
			l += verifGlyphs[ndChoice("glyph", len(verifGlyphs))]
		}
		lines[i] = l
	}
	sl, sc, el, ec := ndInt("sl"), ndInt("sc"), ndInt("el"), ndInt("ec")
	verifAssume(sl > -1000)
	verifAssume(sl < 1000)
	verifAssume(sc > -1000)
	verifAssume(sc < 1000)
	e := &Err{Err: errors.New("m")}
	if ndBool("hasPos") {
		e.Pos = &Position{Start: Point{Line: sl, Column: sc}, End: Point{Line: el, Column: ec}}
	}
	ctx := ndIntRange("ctx", 0, verifParam("C", 2))
	out := humanString(e, lines, ctx)
	verifAssert(len(out) > 0, "rendered")
}
