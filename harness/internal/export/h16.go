package export

import (
	"github.com/pentops/j5/gen/j5/list/v1/list_j5pb"
	"github.com/pentops/j5/gen/j5/schema/v1/schema_j5pb"
)

// H16c: the OpenAPI conversion has a case for every field type the compiler
// can emit, and never panics, whatever optional parts are present.
func verifPtrU64(name string) *uint64 {
	if ndBool(name + "Set") {
		v := ndUint64(name)
		return &v
	}
	return nil
}

func verifExportField(kind int) *schema_j5pb.Field {
	rules := ndBool("rules")
	ref := &schema_j5pb.Ref{Package: "a.v1", Schema: "Other"}
	switch kind {
	case 0:
		f := &schema_j5pb.StringField{}
		if rules {
			pat := "^a$"
			f.Rules = &schema_j5pb.StringField_Rules{MinLength: verifPtrU64("min"), MaxLength: verifPtrU64("max")}
			if ndBool("pattern") {
				f.Rules.Pattern = &pat
			}
		}
		if ndBool("format") {
			fm := "email"
			f.Format = &fm
		}
		return &schema_j5pb.Field{Type: &schema_j5pb.Field_String_{String_: f}}
	case 1:
		f := &schema_j5pb.BoolField{}
		if rules {
			t := true
			f.Rules = &schema_j5pb.BoolField_Rules{Const: &t}
		}
		return &schema_j5pb.Field{Type: &schema_j5pb.Field_Bool{Bool: f}}
	case 2, 3, 4, 5:
		f := &schema_j5pb.IntegerField{Format: []schema_j5pb.IntegerField_Format{schema_j5pb.IntegerField_FORMAT_INT32, schema_j5pb.IntegerField_FORMAT_INT64, schema_j5pb.IntegerField_FORMAT_UINT32, schema_j5pb.IntegerField_FORMAT_UINT64}[kind-2]}
		if rules {
			f.Rules = &schema_j5pb.IntegerField_Rules{}
			if ndBool("hasMax") {
				v := ndInt64("max")
				f.Rules.Maximum = &v
				if ndBool("exclusive") {
					e := ndBool("exclusiveValue")
					f.Rules.ExclusiveMaximum = &e
				}
			}
		}
		return &schema_j5pb.Field{Type: &schema_j5pb.Field_Integer{Integer: f}}
	case 6, 7:
		f := &schema_j5pb.FloatField{Format: []schema_j5pb.FloatField_Format{schema_j5pb.FloatField_FORMAT_FLOAT32, schema_j5pb.FloatField_FORMAT_FLOAT64}[kind-6]}
		if ndBool("listRules") {
			f.ListRules = &list_j5pb.FloatRules{}
		}
		return &schema_j5pb.Field{Type: &schema_j5pb.Field_Float{Float: f}}
	case 8:
		f := &schema_j5pb.BytesField{}
		if rules {
			f.Rules = &schema_j5pb.BytesField_Rules{MinLength: verifPtrU64("min")}
		}
		return &schema_j5pb.Field{Type: &schema_j5pb.Field_Bytes{Bytes: f}}
	case 9:
		f := &schema_j5pb.DateField{}
		if rules {
			f.Rules = &schema_j5pb.DateField_Rules{}
		}
		return &schema_j5pb.Field{Type: &schema_j5pb.Field_Date{Date: f}}
	case 10:
		f := &schema_j5pb.DecimalField{}
		if rules {
			f.Rules = &schema_j5pb.DecimalField_Rules{}
		}
		return &schema_j5pb.Field{Type: &schema_j5pb.Field_Decimal{Decimal: f}}
	case 11:
		return &schema_j5pb.Field{Type: &schema_j5pb.Field_Timestamp{Timestamp: &schema_j5pb.TimestampField{}}}
	case 12:
		f := &schema_j5pb.KeyField{}
		switch ndChoice("keyFormat", 5) {
		case 1:
			f.Format = &schema_j5pb.KeyFormat{Type: &schema_j5pb.KeyFormat_Uuid{Uuid: &schema_j5pb.KeyFormat_UUID{}}}
		case 2:
			f.Format = &schema_j5pb.KeyFormat{Type: &schema_j5pb.KeyFormat_Id62{Id62: &schema_j5pb.KeyFormat_ID62{}}}
		case 3:
			f.Format = &schema_j5pb.KeyFormat{Type: &schema_j5pb.KeyFormat_Custom_{Custom: &schema_j5pb.KeyFormat_Custom{Pattern: "^x$"}}}
		case 4:
			f.Format = &schema_j5pb.KeyFormat{Type: &schema_j5pb.KeyFormat_Informal_{Informal: &schema_j5pb.KeyFormat_Informal{}}}
		}
		if rules {
			f.Entity = &schema_j5pb.EntityKey{Type: &schema_j5pb.EntityKey_PrimaryKey{PrimaryKey: true}}
		}
		return &schema_j5pb.Field{Type: &schema_j5pb.Field_Key{Key: f}}
	case 13:
		return &schema_j5pb.Field{Type: &schema_j5pb.Field_Any{Any: &schema_j5pb.AnyField{}}}
	case 14:
		return &schema_j5pb.Field{Type: &schema_j5pb.Field_Object{Object: &schema_j5pb.ObjectField{Schema: &schema_j5pb.ObjectField_Ref{Ref: ref}, Flatten: ndBool("flatten")}}}
	case 15:
		return &schema_j5pb.Field{Type: &schema_j5pb.Field_Object{Object: &schema_j5pb.ObjectField{Schema: &schema_j5pb.ObjectField_Object{Object: &schema_j5pb.Object{Name: "In",
			Properties: []*schema_j5pb.ObjectProperty{{Name: "x", Schema: &schema_j5pb.Field{Type: &schema_j5pb.Field_String_{String_: &schema_j5pb.StringField{}}}, Required: ndBool("innerRequired")}}}}}}}
	case 16:
		return &schema_j5pb.Field{Type: &schema_j5pb.Field_Oneof{Oneof: &schema_j5pb.OneofField{Schema: &schema_j5pb.OneofField_Ref{Ref: ref}}}}
	case 17:
		return &schema_j5pb.Field{Type: &schema_j5pb.Field_Oneof{Oneof: &schema_j5pb.OneofField{Schema: &schema_j5pb.OneofField_Oneof{Oneof: &schema_j5pb.Oneof{Name: "Ch",
			Properties: []*schema_j5pb.ObjectProperty{{Name: "a", Schema: &schema_j5pb.Field{Type: &schema_j5pb.Field_Bool{Bool: &schema_j5pb.BoolField{}}}}}}}}}}
	case 18:
		return &schema_j5pb.Field{Type: &schema_j5pb.Field_Enum{Enum: &schema_j5pb.EnumField{Schema: &schema_j5pb.EnumField_Ref{Ref: ref}}}}
	case 19:
		return &schema_j5pb.Field{Type: &schema_j5pb.Field_Enum{Enum: &schema_j5pb.EnumField{Schema: &schema_j5pb.EnumField_Enum{Enum: &schema_j5pb.Enum{Name: "E", Prefix: "E_",
			Options: []*schema_j5pb.Enum_Option{{Name: "UNSPECIFIED"}, {Name: "A", Number: 1}}}}}}}
	}
	return nil
}

const verifExportKinds = 20

var verifExportKindNames = []string{"string", "bool", "int32", "int64", "uint32", "uint64", "float32", "float64", "bytes", "date", "decimal", "timestamp", "key", "any",
	"object-ref", "object-inline", "oneof-ref", "oneof-inline", "enum-ref", "enum-inline"}

func HarnessOpenAPIConvert() {
	kind := ndChoice("kind", verifExportKinds)
	f := verifExportField(kind)
	switch ndChoice("cardinality", 3) {
	case 1:
		arr := &schema_j5pb.ArrayField{Items: f}
		if ndBool("arrayRules") {
			arr.Rules = &schema_j5pb.ArrayField_Rules{MinItems: verifPtrU64("minItems"), MaxItems: verifPtrU64("maxItems")}
		}
		f = &schema_j5pb.Field{Type: &schema_j5pb.Field_Array{Array: arr}}
	case 2:
		f = &schema_j5pb.Field{Type: &schema_j5pb.Field_Map{Map: &schema_j5pb.MapField{ItemSchema: f, KeySchema: &schema_j5pb.Field{Type: &schema_j5pb.Field_String_{String_: &schema_j5pb.StringField{}}}}}}
	}
	root := &schema_j5pb.RootSchema{Type: &schema_j5pb.RootSchema_Object{Object: &schema_j5pb.Object{Name: "Thing", Description: "d",
		Properties: []*schema_j5pb.ObjectProperty{{Name: "theField", Schema: f, Required: ndBool("required"), Description: "x"}}}}}
	out, err := ConvertRootSchema(root)
	verifAssert(err == nil, "every-field-type-converts:"+verifExportKindNames[kind])
	if err != nil {
		return
	}
	verifAssert(out != nil && out.SchemaItem != nil, "an-item-is-produced")
}
