package j5client

import (
	"github.com/pentops/j5/gen/j5/client/v1/client_j5pb"
	"github.com/pentops/j5/gen/j5/schema/v1/schema_j5pb"
	"github.com/pentops/j5/gen/j5/source/v1/source_j5pb"
	"github.com/pentops/j5/gen/j5/sourcedef/v1/sourcedef_j5pb"
	"github.com/pentops/j5/internal/bcl/errpos"
	"github.com/pentops/j5/internal/export"
	"github.com/pentops/j5/internal/j5s/j5convert"
	"github.com/pentops/j5/internal/structure"
	"github.com/pentops/j5/lib/j5schema"
	"google.golang.org/protobuf/types/descriptorpb"
)

// C16: from a j5s service to the client API. The real compiler
// (SourceSummary + ConvertJ5File), the real structure.buildService /
// buildMethod on the compiled service descriptor (through fakedesc), the real
// schema reflection and export, and the real j5client.APIFromSource
// (PackageSetFromSourceAPI, methodFromSource, fillRequest, ToJ5Proto) are
// chained; the client API must list exactly the declared service and methods
// with the declared verb and path, every path parameter must name a request
// property, and the request properties must be split into path / query / body
// as the verb dictates.

type verifWarn struct{}

func (verifWarn) WarnPos(pos *errpos.Position, err error) {}

type verifOwnTypes struct{ summary *j5convert.FileSummary }

func (d verifOwnTypes) ResolveType(pkg string, name string) (*j5convert.TypeRef, error) {
	if d.summary != nil && pkg == d.summary.Package {
		if t, ok := d.summary.Exports[name]; ok {
			return t, nil
		}
	}
	return nil, &j5convert.TypeNotFoundError{Package: pkg, Name: name}
}

// request property names: plain, with an acronym (the JSON name is not the
// lowerCamel of the proto name), with a digit, and one that is a proper prefix
// of another (thing / thingId)
var verifPropNames = []string{"thingId", "accountID", "fooURL", "name", "v2Key", "thing"}

func verifStringField() *schema_j5pb.Field {
	return &schema_j5pb.Field{Type: &schema_j5pb.Field_String_{String_: &schema_j5pb.StringField{}}}
}

func HarnessClientAPI() {
	verbs := []client_j5pb.HTTPMethod{client_j5pb.HTTPMethod_GET, client_j5pb.HTTPMethod_POST, client_j5pb.HTTPMethod_PUT, client_j5pb.HTTPMethod_DELETE, client_j5pb.HTTPMethod_PATCH}
	nMethods := ndIntRange("methods", 1, verifParam("M", 1))
	type spec struct {
		name     string
		verb     int
		path     []string // names of the path parameters, in order
		rest     []string // the other request properties
		response bool
	}
	specs := []spec{}
	methods := []*sourcedef_j5pb.APIMethod{}
	enumPathParam := ndBool("enumTypedPathParameter")
	usesRegion := false
	for i := 0; i < nMethods; i++ {
		sp := spec{name: []string{"GetThing", "PutOther"}[i], verb: ndChoice("verb", len(verbs)), response: ndBool("response")}
		nPath := ndIntRange("pathParams", 0, 2)
		used := map[string]bool{}
		path := "/things"
		props := []*schema_j5pb.ObjectProperty{}
		for k := 0; k < nPath; k++ {
			pn := verifPropNames[ndChoice("pathParam", len(verifPropNames))]
			if used[pn] {
				verifAssume(false)
			}
			used[pn] = true
			sp.path = append(sp.path, pn)
			path += "/:" + pn
			sch := verifStringField()
			if k == 0 && enumPathParam {
				// an enum that nothing else refers to
				sch = &schema_j5pb.Field{Type: &schema_j5pb.Field_Enum{Enum: &schema_j5pb.EnumField{Schema: &schema_j5pb.EnumField_Ref{Ref: &schema_j5pb.Ref{Schema: "Region"}}}}}
				usesRegion = true
			}
			props = append(props, &schema_j5pb.ObjectProperty{Name: pn, Schema: sch, Required: true})
		}
		nRest := ndIntRange("otherProps", 0, 2)
		for k := 0; k < nRest; k++ {
			pn := verifPropNames[ndChoice("otherProp", len(verifPropNames))]
			if used[pn] {
				verifAssume(false)
			}
			used[pn] = true
			sp.rest = append(sp.rest, pn)
			props = append(props, &schema_j5pb.ObjectProperty{Name: pn, Schema: verifStringField()})
		}
		m := &sourcedef_j5pb.APIMethod{Name: sp.name, HttpPath: path, HttpMethod: verbs[sp.verb], Request: &sourcedef_j5pb.AnonymousObject{Properties: props}}
		if sp.response {
			m.Response = &sourcedef_j5pb.AnonymousObject{Properties: []*schema_j5pb.ObjectProperty{{Name: "result", Schema: verifStringField()}}}
		}
		methods = append(methods, m)
		specs = append(specs, sp)
	}
	svcName := "Widget"
	base := "/a/v1"
	src := &sourcedef_j5pb.SourceFile{Path: "a/v1/x.j5s", Package: &sourcedef_j5pb.Package{Name: "a.v1"},
		Elements: []*sourcedef_j5pb.RootElement{{Type: &sourcedef_j5pb.RootElement_Service{Service: &sourcedef_j5pb.Service{Name: &svcName, BasePath: &base, Methods: methods}}},
			{Type: &sourcedef_j5pb.RootElement_Enum{Enum: &schema_j5pb.Enum{Name: "Region", Options: []*schema_j5pb.Enum_Option{{Name: "NORTH"}, {Name: "SOUTH"}}}}}}}
	summary, err := j5convert.SourceSummary(src, verifWarn{})
	if err != nil {
		verifFail("valid-service-summarised")
		return
	}
	files, err := j5convert.ConvertJ5File(verifOwnTypes{summary: summary}, src)
	verifAssert(err == nil, "valid-service-compiled")
	if err != nil {
		return
	}
	var svcFile *descriptorpb.FileDescriptorProto
	for _, f := range files {
		if len(f.Service) > 0 {
			svcFile = f
		}
	}
	if svcFile == nil {
		verifFail("service-file-emitted")
		return
	}
	u := j5schema.VerifNewUniverse(files...)
	var file *j5schema.VerifFile
	for _, f := range u.Files {
		if f.Path() == svcFile.GetName() {
			file = f
		}
	}
	svcs := file.Services()
	verifAssert(svcs.Len() == 1, "one-service-descriptor")
	if svcs.Len() != 1 {
		return
	}
	built, err := structure.VerifBuildService(svcs.Get(0))
	verifAssert(err == nil, "structure-built-from-compiled-service")
	if err != nil {
		return
	}
	// schemas of the service sub-package: reflected from the compiled messages, exported
	cache := j5schema.NewSchemaCache()
	msgs := file.Messages()
	sub := &source_j5pb.SubPackage{Name: "service", Schemas: map[string]*schema_j5pb.RootSchema{}, Services: []*source_j5pb.Service{built}}
	for i := 0; i < msgs.Len(); i++ {
		root, err := cache.Schema(msgs.Get(i))
		verifAssert(err == nil, "compiled-message-reflects")
		if err != nil {
			return
		}
		sub.Schemas[string(msgs.Get(i).Name())] = root.ToJ5Root()
	}
	rootSchemas := map[string]*schema_j5pb.RootSchema{}
	// what the request/response messages refer to in the root package (the enum)
	if rootPkg, ok := j5schema.VerifCachePackages(cache)["a.v1"]; ok {
		for name, ref := range rootPkg.Schemas {
			if ref.To != nil {
				rootSchemas[name] = ref.To.ToJ5Root()
			}
		}
	}
	api := &source_j5pb.API{Packages: []*source_j5pb.Package{{Name: "a.v1", Schemas: rootSchemas, SubPackages: []*source_j5pb.SubPackage{sub}}}}
	client, err := APIFromSource(api)
	verifAssert(err == nil, "client-api-built")
	if err != nil {
		return
	}
	// the two renderings of the client API: the J5 JSON form and the OpenAPI document
	jdef, jerr := export.FromProto(client)
	verifAssert(jerr == nil && jdef != nil, "j5-json-rendering-built")
	doc, derr := export.BuildSwagger(client)
	verifAssert(derr == nil && doc != nil, "openapi-document-built")
	verifAssert(len(client.Packages) == 1 && len(client.Packages[0].Services) == 1, "exactly-the-declared-service")
	if len(client.Packages) != 1 || len(client.Packages[0].Services) != 1 {
		return
	}
	// every schema reachable from a method is in the client package
	if usesRegion {
		_, has := client.Packages[0].Schemas["a.v1.Region"]
		_, hasShort := client.Packages[0].Schemas["Region"]
		verifAssert(has || hasShort, "schema-reachable-only-through-a-path-parameter-is-present")
	}
	cs := client.Packages[0].Services[0]
	verifAssert(cs.Name == "WidgetService", "service-name")
	verifAssert(len(cs.Methods) == nMethods, "exactly-the-declared-methods")
	if len(cs.Methods) != nMethods {
		return
	}
	for i, sp := range specs {
		cm := cs.Methods[i]
		verifAssert(cm.Name == sp.name, "method-name")
		verifAssert(cm.HttpMethod == verbs[sp.verb], "declared-verb")
		wantPath := "/a/v1/things"
		for _, p := range sp.path {
			wantPath += "/:" + p
		}
		verifAssert(cm.HttpPath == wantPath, "declared-path-with-property-names")
		if cm.Request == nil {
			verifFail("request-present")
			continue
		}
		// path parameters: exactly the declared ones, each naming a request property
		verifAssert(len(cm.Request.PathParameters) == len(sp.path), "path-parameters-are-request-properties")
		for k, p := range sp.path {
			if k < len(cm.Request.PathParameters) {
				verifAssert(cm.Request.PathParameters[k].Name == p, "path-parameter-name")
			}
		}
		// the rest: query parameters for GET, body otherwise
		var rest []*schema_j5pb.ObjectProperty
		if sp.verb == 0 {
			verifAssert(cm.Request.Body == nil, "get-has-no-body")
			rest = cm.Request.QueryParameters
		} else {
			verifAssert(len(cm.Request.QueryParameters) == 0, "non-get-has-no-query-parameters")
			if cm.Request.Body == nil {
				verifFail("non-get-has-a-body")
				continue
			}
			rest = cm.Request.Body.Properties
		}
		verifAssert(len(rest) == len(sp.rest), "other-properties-in-query-or-body")
		for k, p := range sp.rest {
			if k < len(rest) {
				verifAssert(rest[k].Name == p, "other-property-name")
			}
		}
	}
}

// HarnessSourceAPISubPackages (C15): a source API whose package has schemas
// only in a sub-package (what every service-only package looks like) is
// re-imported with every sub-package schema present and exporting to the same
// form again.
func HarnessSourceAPISubPackages() {
	withRootSchema := ndBool("rootPackageHasASchema")
	withResponse := ndBool("response")
	svcName, base := "Widget", "/a/v1"
	m := &sourcedef_j5pb.APIMethod{Name: "GetThing", HttpPath: "/things/:thingId", HttpMethod: client_j5pb.HTTPMethod_GET,
		Request: &sourcedef_j5pb.AnonymousObject{Properties: []*schema_j5pb.ObjectProperty{{Name: "thingId", Schema: verifStringField(), Required: true}}}}
	if withResponse {
		m.Response = &sourcedef_j5pb.AnonymousObject{Properties: []*schema_j5pb.ObjectProperty{{Name: "result", Schema: verifStringField()}}}
	}
	els := []*sourcedef_j5pb.RootElement{{Type: &sourcedef_j5pb.RootElement_Service{Service: &sourcedef_j5pb.Service{Name: &svcName, BasePath: &base, Methods: []*sourcedef_j5pb.APIMethod{m}}}}}
	if withRootSchema {
		els = append(els, &sourcedef_j5pb.RootElement{Type: &sourcedef_j5pb.RootElement_Object{Object: &sourcedef_j5pb.Object{Def: &schema_j5pb.Object{Name: "Plain",
			Properties: []*schema_j5pb.ObjectProperty{{Name: "a", Schema: verifStringField()}}}}}})
	}
	src := &sourcedef_j5pb.SourceFile{Path: "a/v1/x.j5s", Package: &sourcedef_j5pb.Package{Name: "a.v1"}, Elements: els}
	summary, err := j5convert.SourceSummary(src, verifWarn{})
	if err != nil {
		verifFail("valid-package-summarised")
		return
	}
	files, err := j5convert.ConvertJ5File(verifOwnTypes{summary: summary}, src)
	if err != nil {
		verifFail("valid-package-compiled")
		return
	}
	u := j5schema.VerifNewUniverse(files...)
	cache := j5schema.NewSchemaCache()
	root := &source_j5pb.Package{Name: "a.v1", Schemas: map[string]*schema_j5pb.RootSchema{}}
	sub := &source_j5pb.SubPackage{Name: "service", Schemas: map[string]*schema_j5pb.RootSchema{}}
	root.SubPackages = []*source_j5pb.SubPackage{sub}
	names := []string{}
	for _, f := range u.Files {
		msgs := f.Messages()
		for i := 0; i < msgs.Len(); i++ {
			rs, err := cache.Schema(msgs.Get(i))
			if err != nil {
				verifFail("compiled-message-reflects")
				return
			}
			if f.Package() == "a.v1.service" {
				sub.Schemas[string(msgs.Get(i).Name())] = rs.ToJ5Root()
				names = append(names, string(msgs.Get(i).Name()))
			} else {
				root.Schemas[string(msgs.Get(i).Name())] = rs.ToJ5Root()
			}
		}
	}
	verifAssert(len(names) > 0, "sub-package-has-schemas")
	ps, err := j5schema.PackageSetFromSourceAPI([]*source_j5pb.Package{root})
	verifAssert(err == nil, "source-api-imported")
	if err != nil {
		return
	}
	for _, n := range names {
		got, err := ps.SchemaByName("a.v1.service", n)
		verifAssert(err == nil && got != nil, "sub-package-schema-present-after-import")
		if err == nil && got != nil {
			verifAssertDeepEqual(got.ToJ5Root(), sub.Schemas[n], "sub-package-schema-exports-to-the-same-form")
		}
	}
}
