package j5reflect

import (
	"buf.build/gen/go/bufbuild/protovalidate/protocolbuffers/go/buf/validate"
	"github.com/pentops/j5/gen/j5/ext/v1/ext_j5pb"
	"github.com/pentops/j5/gen/j5/list/v1/list_j5pb"
	"github.com/pentops/j5/lib/j5schema"
	"google.golang.org/protobuf/proto"
	"google.golang.org/protobuf/reflect/protoreflect"
	"google.golang.org/protobuf/types/descriptorpb"
)

// C18: schema reflection over arbitrary proto3 descriptors is total and
// self-consistent. The descriptor set is drawn symbolically (every scalar
// kind incl. the ones J5 does not support, repeated/optional/oneof placement,
// self- and mutual recursion, enums with and without a zero UNSPECIFIED value,
// one validate / list / j5 annotation kind per field, matching the field or
// not) and viewed through fakedesc.

var verifKindsAll = []descriptorpb.FieldDescriptorProto_Type{
	descriptorpb.FieldDescriptorProto_TYPE_DOUBLE, descriptorpb.FieldDescriptorProto_TYPE_FLOAT,
	descriptorpb.FieldDescriptorProto_TYPE_INT64, descriptorpb.FieldDescriptorProto_TYPE_UINT64,
	descriptorpb.FieldDescriptorProto_TYPE_INT32, descriptorpb.FieldDescriptorProto_TYPE_FIXED64,
	descriptorpb.FieldDescriptorProto_TYPE_FIXED32, descriptorpb.FieldDescriptorProto_TYPE_BOOL,
	descriptorpb.FieldDescriptorProto_TYPE_STRING, descriptorpb.FieldDescriptorProto_TYPE_BYTES,
	descriptorpb.FieldDescriptorProto_TYPE_UINT32, descriptorpb.FieldDescriptorProto_TYPE_SFIXED32,
	descriptorpb.FieldDescriptorProto_TYPE_SFIXED64, descriptorpb.FieldDescriptorProto_TYPE_SINT32,
	descriptorpb.FieldDescriptorProto_TYPE_SINT64,
	descriptorpb.FieldDescriptorProto_TYPE_MESSAGE, descriptorpb.FieldDescriptorProto_TYPE_ENUM,
}

func verifValidateExt(which int) *validate.FieldConstraints {
	t := true
	one := int32(1)
	u := uint64(1)
	s := "^a$"
	switch which {
	case 1:
		return &validate.FieldConstraints{Required: &t}
	case 2:
		return &validate.FieldConstraints{Type: &validate.FieldConstraints_String_{String_: &validate.StringRules{MinLen: &u, Pattern: &s}}}
	case 3:
		return &validate.FieldConstraints{Type: &validate.FieldConstraints_Bool{Bool: &validate.BoolRules{Const: &t}}}
	case 4:
		return &validate.FieldConstraints{Type: &validate.FieldConstraints_Int32{Int32: &validate.Int32Rules{LessThan: &validate.Int32Rules_Lt{Lt: 5}}}}
	case 5:
		return &validate.FieldConstraints{Type: &validate.FieldConstraints_Uint64{Uint64: &validate.UInt64Rules{GreaterThan: &validate.UInt64Rules_Gte{Gte: 2}}}}
	case 6:
		return &validate.FieldConstraints{Type: &validate.FieldConstraints_Bytes{Bytes: &validate.BytesRules{MinLen: &u}}}
	case 7:
		return &validate.FieldConstraints{Type: &validate.FieldConstraints_Enum{Enum: &validate.EnumRules{DefinedOnly: &t, In: []int32{one}, NotIn: []int32{0, 7}}}}
	case 8:
		return &validate.FieldConstraints{Type: &validate.FieldConstraints_Repeated{Repeated: &validate.RepeatedRules{MinItems: &u}}}
	case 9:
		return &validate.FieldConstraints{Type: &validate.FieldConstraints_Double{Double: &validate.DoubleRules{}}}
	case 10:
		return &validate.FieldConstraints{Type: &validate.FieldConstraints_String_{String_: &validate.StringRules{WellKnown: &validate.StringRules_Uuid{Uuid: true}}}}
	case 11:
		return &validate.FieldConstraints{Type: &validate.FieldConstraints_Timestamp{Timestamp: &validate.TimestampRules{}}}
	case 12:
		ig := validate.Ignore_IGNORE_IF_UNPOPULATED
		return &validate.FieldConstraints{Ignore: &ig, Type: &validate.FieldConstraints_Repeated{Repeated: &validate.RepeatedRules{MinItems: &u}}}
	case 13:
		ig := validate.Ignore_IGNORE_ALWAYS
		return &validate.FieldConstraints{Ignore: &ig, Required: &t}
	}
	return nil
}

func verifListExt(which int) *list_j5pb.FieldConstraint {
	switch which {
	case 1:
		return &list_j5pb.FieldConstraint{Type: &list_j5pb.FieldConstraint_String_{String_: &list_j5pb.StringRules{WellKnown: &list_j5pb.StringRules_OpenText{OpenText: &list_j5pb.OpenTextRules{}}}}}
	case 2:
		return &list_j5pb.FieldConstraint{Type: &list_j5pb.FieldConstraint_String_{String_: &list_j5pb.StringRules{WellKnown: &list_j5pb.StringRules_ForeignKey{ForeignKey: &list_j5pb.ForeignKeyRules{Type: &list_j5pb.ForeignKeyRules_Id62{Id62: &list_j5pb.KeyRules{}}}}}}}
	case 3:
		return &list_j5pb.FieldConstraint{Type: &list_j5pb.FieldConstraint_Int64{Int64: &list_j5pb.IntegerRules{}}}
	case 4:
		return &list_j5pb.FieldConstraint{Type: &list_j5pb.FieldConstraint_Bool{Bool: &list_j5pb.BoolRules{}}}
	case 5:
		return &list_j5pb.FieldConstraint{Type: &list_j5pb.FieldConstraint_Enum{Enum: &list_j5pb.EnumRules{}}}
	}
	return nil
}

func verifJ5Ext(which int) *ext_j5pb.FieldOptions {
	switch which {
	case 1:
		return &ext_j5pb.FieldOptions{Type: &ext_j5pb.FieldOptions_Key{Key: &ext_j5pb.KeyField{}}}
	case 2:
		return &ext_j5pb.FieldOptions{Type: &ext_j5pb.FieldOptions_Object{Object: &ext_j5pb.ObjectField{Flatten: true}}}
	case 3:
		return &ext_j5pb.FieldOptions{Type: &ext_j5pb.FieldOptions_String_{String_: &ext_j5pb.StringField{}}}
	case 4:
		return &ext_j5pb.FieldOptions{Type: &ext_j5pb.FieldOptions_Key{Key: &ext_j5pb.KeyField{Type: &ext_j5pb.KeyField_Format_{Format: ext_j5pb.KeyField_FORMAT_UNSPECIFIED}}}}
	case 5:
		return &ext_j5pb.FieldOptions{Type: &ext_j5pb.FieldOptions_Array{Array: &ext_j5pb.ArrayField{}}}
	}
	return nil
}

// draws go through these variables so that a harness of another package (the
// codec's, which cannot be imported from here) can build the same files with
// its own draw functions: VerifArbitraryFile
var (
	verifChoice   = func(name string, n int) int { return ndChoice(name, n) }
	verifBoolean  = func(name string) bool { return ndBool(name) }
	verifIntRange = func(name string, lo, hi int) int { return ndIntRange(name, lo, hi) }
)

// VerifArbitraryFile: the file HarnessReflectArbitraryProto draws (message M
// with 1..F symbolic fields, N, enums Good and Bad), drawn with the caller's functions.
func VerifArbitraryFile(choice func(string, int) int, boolean func(string) bool, intRange func(string, int, int) int, F int) *descriptorpb.FileDescriptorProto {
	c, b, r := verifChoice, verifBoolean, verifIntRange
	verifChoice, verifBoolean, verifIntRange = choice, boolean, intRange
	fdp := verifArbitraryFile(F)
	verifChoice, verifBoolean, verifIntRange = c, b, r
	return fdp
}

func verifDrawField(name string, number int32, oneofs int) *descriptorpb.FieldDescriptorProto {
	kind := verifKindsAll[verifChoice("kind", len(verifKindsAll))]
	fd := &descriptorpb.FieldDescriptorProto{Name: proto.String(name), Number: proto.Int32(number), Type: kind.Enum(), JsonName: proto.String(name),
		Label: descriptorpb.FieldDescriptorProto_LABEL_OPTIONAL.Enum(), Options: &descriptorpb.FieldOptions{}}
	switch kind {
	case descriptorpb.FieldDescriptorProto_TYPE_MESSAGE:
		fd.TypeName = proto.String([]string{".t.v1.M", ".t.v1.N", ".google.protobuf.Timestamp", ".google.protobuf.Duration", ".google.protobuf.Struct", ".google.protobuf.Any", ".google.protobuf.Empty", ".t.v1.M.Entry"}[verifChoice("messageType", 8)])
	case descriptorpb.FieldDescriptorProto_TYPE_ENUM:
		fd.TypeName = proto.String([]string{".t.v1.Good", ".t.v1.Bad"}[verifChoice("enumType", 2)])
	}
	if oneofs > 0 {
		fd.OneofIndex = proto.Int32(0)
	} else {
		switch verifChoice("shape", 3) {
		case 1:
			fd.Label = descriptorpb.FieldDescriptorProto_LABEL_REPEATED.Enum()
		case 2:
			fd.Proto3Optional = proto.Bool(true)
		}
	}
	// annotations: either a (validate, list) pair or a j5 field extension
	if verifBoolean("annotateWithJ5Ext") {
		if j := verifJ5Ext(verifChoice("j5ext", 6)); j != nil {
			proto.SetExtension(fd.Options, ext_j5pb.E_Field, j)
		}
	} else {
		if v := verifValidateExt(verifChoice("validate", 14)); v != nil {
			proto.SetExtension(fd.Options, validate.E_Field, v)
		}
		if l := verifListExt(verifChoice("list", 6)); l != nil {
			proto.SetExtension(fd.Options, list_j5pb.E_Field, l)
		}
	}
	return fd
}

func verifMapEntry() *descriptorpb.DescriptorProto {
	return &descriptorpb.DescriptorProto{Name: proto.String("Entry"), Options: &descriptorpb.MessageOptions{MapEntry: proto.Bool(true)},
		Field: []*descriptorpb.FieldDescriptorProto{
			{Name: proto.String("key"), Number: proto.Int32(1), Type: descriptorpb.FieldDescriptorProto_TYPE_STRING.Enum(), Label: descriptorpb.FieldDescriptorProto_LABEL_OPTIONAL.Enum()},
			{Name: proto.String("value"), Number: proto.Int32(2), Type: descriptorpb.FieldDescriptorProto_TYPE_INT32.Enum(), Label: descriptorpb.FieldDescriptorProto_LABEL_OPTIONAL.Enum()},
		}}
}

func verifArbitraryFile(F int) *descriptorpb.FileDescriptorProto {
	nFields := verifIntRange("fields", 1, F)
	withOneof := verifBoolean("realOneof")
	m := &descriptorpb.DescriptorProto{Name: proto.String("M"), Options: &descriptorpb.MessageOptions{}, NestedType: []*descriptorpb.DescriptorProto{verifMapEntry()}}
	oneofs := 0
	if withOneof {
		m.OneofDecl = []*descriptorpb.OneofDescriptorProto{{Name: proto.String([]string{"type", "choice"}[verifChoice("oneofName", 2)]), Options: &descriptorpb.OneofOptions{}}}
		if verifBoolean("exposeOneof") {
			proto.SetExtension(m.OneofDecl[0].Options, ext_j5pb.E_Oneof, &ext_j5pb.OneofOptions{Expose: true})
		}
		oneofs = 1
	}
	for i := 0; i < nFields; i++ {
		// (a field literally called "keys" is where the legacy entity lookup looks)
		name := []string{"first", "second_one"}[i]
		if i == 0 && verifBoolean("firstFieldNamedKeys") {
			name = "keys"
		}
		m.Field = append(m.Field, verifDrawField(name, int32(i+1), oneofs))
	}
	// N refers back to M (mutual recursion, optionally flattened: a flatten cycle
	// through two messages) and to itself
	n := &descriptorpb.DescriptorProto{Name: proto.String("N"), Field: []*descriptorpb.FieldDescriptorProto{
		{Name: proto.String("back"), Number: proto.Int32(1), Type: descriptorpb.FieldDescriptorProto_TYPE_MESSAGE.Enum(), TypeName: proto.String(".t.v1.M"), Label: descriptorpb.FieldDescriptorProto_LABEL_OPTIONAL.Enum(), Options: &descriptorpb.FieldOptions{}},
		{Name: proto.String("self"), Number: proto.Int32(2), Type: descriptorpb.FieldDescriptorProto_TYPE_MESSAGE.Enum(), TypeName: proto.String(".t.v1.N"), Label: descriptorpb.FieldDescriptorProto_LABEL_REPEATED.Enum()},
	}}
	if verifBoolean("backReferenceFlattened") {
		proto.SetExtension(n.Field[0].Options, ext_j5pb.E_Field, verifJ5Ext(2))
	}
	enumv := func(name string, n int32) *descriptorpb.EnumValueDescriptorProto {
		return &descriptorpb.EnumValueDescriptorProto{Name: proto.String(name), Number: proto.Int32(n)}
	}
	fdp := &descriptorpb.FileDescriptorProto{Name: proto.String("t/v1/t.proto"), Package: proto.String("t.v1"), Syntax: proto.String("proto3"),
		MessageType: []*descriptorpb.DescriptorProto{m, n},
		EnumType: []*descriptorpb.EnumDescriptorProto{
			{Name: proto.String("Good"), Value: []*descriptorpb.EnumValueDescriptorProto{enumv("GOOD_UNSPECIFIED", 0), enumv("GOOD_ONE", 1)}},
			{Name: proto.String("Bad"), Value: []*descriptorpb.EnumValueDescriptorProto{enumv("FIRST", 0), enumv("OTHER", 2)}},
		}}
	return fdp
}

func HarnessReflectArbitraryProto() {
	fdp := verifArbitraryFile(verifParam("F", 1))
	u := j5schema.VerifNewUniverse(fdp)
	msg := u.Message("t.v1.M")
	cache := j5schema.NewSchemaCache()
	verifTermBudget(8000000) // covers reflection *and* binding the schema to the message
	root, err := cache.Schema(msg)
	verifAssert((root != nil) != (err != nil), "schema-xor-error")
	if err != nil || root == nil {
		return
	}
	verifReach("reflected")
	// self-consistency: the reflected schema can be bound to the message it describes
	var props []*j5schema.ObjectProperty
	var ps propSetFactory
	var perr error
	switch s := root.(type) {
	case *j5schema.ObjectSchema:
		props = s.ClientProperties()
		ps, perr = newPropSet(s, msg)
	case *j5schema.OneofSchema:
		props = s.ClientProperties()
		ps, perr = newPropSet(s, msg)
	default:
		verifFail("root-schema-is-object-or-oneof")
	}
	verifAssert(perr == nil, "proto-field-paths-resolve")
	// property names unique
	for i := range props {
		for k := i + 1; k < len(props); k++ {
			verifAssert(props[i].JSONName != props[k].JSONName, "property-names-unique")
		}
	}
	if perr != nil {
		return
	}
	// every property resolves to a field whose kind the field factories accept
	for _, stub := range ps.properties {
		if len(stub.protoPath) == 0 {
			continue // an exposed oneof wrapper has no field of its own
		}
		fd := stub.protoPath[len(stub.protoPath)-1]
		var leaf j5schema.FieldSchema = stub.schema.Schema
		if fd.IsList() {
			if arr, ok := leaf.(*j5schema.ArrayField); ok {
				leaf = arr.Schema
			} else {
				verifFail("repeated-field-without-array-schema")
			}
		} else if fd.IsMap() {
			if mp, ok := leaf.(*j5schema.MapField); ok {
				leaf = mp.Schema
				fd = fd.MapValue()
			} else {
				verifFail("map-field-without-map-schema")
			}
		}
		switch st := leaf.(type) {
		case *j5schema.ScalarSchema, *j5schema.EnumField:
			_, ferr := newFieldFactory(st, fd)
			verifAssert(ferr == nil, "scalar-schema-kind-matches-proto-kind")
			if sc, ok := st.(*j5schema.ScalarSchema); ok && ferr == nil && sc.WellKnownTypeName == "" {
				// the codec can read a value of that proto kind through the schema
				_, gerr := scalarGoFromReflect(sc.Proto, verifValueOfKind(fd.Kind()))
				verifAssert(gerr == nil, "codec-reads-value-of-reflected-kind")
			}
		case *j5schema.ObjectField, *j5schema.OneofField:
			verifAssert(fd.Kind() == protoreflect.MessageKind, "container-schema-on-message-field")
		}
	}
}

func verifValueOfKind(k protoreflect.Kind) protoreflect.Value {
	switch k {
	case protoreflect.BoolKind:
		return protoreflect.ValueOfBool(true)
	case protoreflect.Int32Kind, protoreflect.Sint32Kind, protoreflect.Sfixed32Kind:
		return protoreflect.ValueOfInt32(1)
	case protoreflect.Int64Kind, protoreflect.Sint64Kind, protoreflect.Sfixed64Kind:
		return protoreflect.ValueOfInt64(1)
	case protoreflect.Uint32Kind, protoreflect.Fixed32Kind:
		return protoreflect.ValueOfUint32(1)
	case protoreflect.Uint64Kind, protoreflect.Fixed64Kind:
		return protoreflect.ValueOfUint64(1)
	case protoreflect.FloatKind:
		return protoreflect.ValueOfFloat32(1)
	case protoreflect.DoubleKind:
		return protoreflect.ValueOfFloat64(1)
	case protoreflect.StringKind:
		return protoreflect.ValueOfString("s")
	case protoreflect.BytesKind:
		return protoreflect.ValueOfBytes([]byte("b"))
	}
	return protoreflect.Value{}
}
