package j5reflect

import (
	"github.com/pentops/j5/gen/j5/schema/v1/schema_j5pb"
	"github.com/pentops/j5/lib/j5schema"
	"google.golang.org/protobuf/reflect/protoreflect"
)

// VerifCell is a protoContext with the contract of protoPair (a singular proto
// field): an invalid Value clears it.
type VerifCell struct {
	Val   protoreflect.Value
	IsSet bool
	Sets  int
}

func (c *VerifCell) isSet() bool { return c.IsSet }
func (c *VerifCell) getValue() (protoreflect.Value, bool) {
	if !c.IsSet {
		return protoreflect.Value{}, false
	}
	return c.Val, true
}
func (c *VerifCell) getMutableValue(createIfNotSet bool) (protoreflect.Value, error) {
	return c.Val, nil
}
func (c *VerifCell) setValue(v protoreflect.Value) error {
	c.Sets++
	if !v.IsValid() {
		c.IsSet = false
		c.Val = protoreflect.Value{}
		return nil
	}
	c.IsSet = true
	c.Val = v
	return nil
}

type verifFieldCtx struct{ fieldContext }

func (verifFieldCtx) NameInParent() string { return "f" }
func (verifFieldCtx) FullTypeName() string { return "verif.f" }
func (verifFieldCtx) TypeName() string     { return "f" }
func (verifFieldCtx) IndexInParent() int   { return -1 }
func (verifFieldCtx) ProtoPath() []string  { return []string{"f"} }

func VerifNewScalar(schema *schema_j5pb.Field) (ScalarField, *VerifCell) {
	cell := &VerifCell{}
	return &scalarField{fieldContext: verifFieldCtx{}, value: cell, schema: &j5schema.ScalarSchema{Proto: schema}}, cell
}

func VerifNewEnum(es *j5schema.EnumSchema) (EnumField, *VerifCell) {
	cell := &VerifCell{}
	return &enumField{fieldContext: verifFieldCtx{}, value: cell, schema: j5schema.VerifEnumField(es)}, cell
}

// VerifList is a protoreflect.List with protobuf-go's contract for scalar
// lists: Append/Set of an invalid Value panics.
type VerifList struct {
	protoreflect.List
	Items []protoreflect.Value
}

func (l *VerifList) Len() int                     { return len(l.Items) }
func (l *VerifList) IsValid() bool                { return true }
func (l *VerifList) Get(i int) protoreflect.Value { return l.Items[i] }
func (l *VerifList) Truncate(n int)               { l.Items = l.Items[:n] }
func (l *VerifList) Append(v protoreflect.Value) {
	if !v.IsValid() {
		verifPanic("protoreflect.List.Append: invalid Value (protobuf-go panics converting it to the element type)")
	}
	l.Items = append(l.Items, v)
}
func (l *VerifList) Set(i int, v protoreflect.Value) {
	if !v.IsValid() {
		verifPanic("protoreflect.List.Set: invalid Value")
	}
	l.Items[i] = v
}

type VerifMap struct {
	protoreflect.Map
	Keys []string
	Vals []protoreflect.Value
}

func (m *VerifMap) Len() int      { return len(m.Keys) }
func (m *VerifMap) IsValid() bool { return true }
func (m *VerifMap) Set(k protoreflect.MapKey, v protoreflect.Value) {
	if !v.IsValid() {
		verifPanic("protoreflect.Map.Set: invalid Value (protobuf-go panics converting it to the value type)")
	}
	ks := k.String()
	for i := range m.Keys {
		if m.Keys[i] == ks {
			m.Vals[i] = v
			return
		}
	}
	m.Keys = append(m.Keys, ks)
	m.Vals = append(m.Vals, v)
}

func VerifNewScalarArray(schema *schema_j5pb.Field) (ArrayOfScalarField, *VerifList) {
	l := &VerifList{}
	item := &j5schema.ScalarSchema{Proto: schema}
	af := &arrayOfScalarField{
		leafArrayField: leafArrayField{baseArrayField: baseArrayField{fieldContext: verifFieldCtx{}, value: l, schema: &j5schema.ArrayField{Schema: item}}},
		itemSchema:     item,
	}
	return af, l
}

func VerifNewEnumArray(es *j5schema.EnumSchema) (ArrayOfEnumField, *VerifList) {
	l := &VerifList{}
	af := &arrayOfEnumField{
		leafArrayField: leafArrayField{baseArrayField: baseArrayField{fieldContext: verifFieldCtx{}, value: l, schema: &j5schema.ArrayField{Schema: j5schema.VerifEnumField(es)}}},
		itemSchema:     es,
	}
	return af, l
}

func VerifNewScalarMap(schema *schema_j5pb.Field) (MapOfScalarField, *VerifMap) {
	m := &VerifMap{}
	item := &j5schema.ScalarSchema{Proto: schema}
	mf := &mapOfScalarField{
		leafMapField: leafMapField{baseMapField: baseMapField{fieldContext: verifFieldCtx{}, value: m, schema: &j5schema.MapField{Schema: item}}},
		itemSchema:   item,
	}
	return mf, m
}
