package j5reflect

import (
	"github.com/pentops/j5/lib/j5schema"
	"google.golang.org/protobuf/proto"
	"google.golang.org/protobuf/types/descriptorpb"
)

// C10: one schema cache used from two goroutines at once. The engine runs the
// two calls as logical threads: every access to a heap cell or Go map that both
// threads can reach is tracked with vector clocks (program order, unlock->lock,
// spawn and join edges); two conflicting accesses not ordered by that relation
// are a data race. Schedules are explored at synchronisation operations.

func verifConcurrencyUniverse() *j5schema.VerifUniverse {
	msgField := func(name string, n int32, typ string, repeated bool) *descriptorpb.FieldDescriptorProto {
		f := &descriptorpb.FieldDescriptorProto{Name: proto.String(name), Number: proto.Int32(n), JsonName: proto.String(name),
			Type: descriptorpb.FieldDescriptorProto_TYPE_MESSAGE.Enum(), TypeName: proto.String(typ), Label: descriptorpb.FieldDescriptorProto_LABEL_OPTIONAL.Enum()}
		if repeated {
			f.Label = descriptorpb.FieldDescriptorProto_LABEL_REPEATED.Enum()
		}
		return f
	}
	str := func(name string, n int32) *descriptorpb.FieldDescriptorProto {
		return &descriptorpb.FieldDescriptorProto{Name: proto.String(name), Number: proto.Int32(n), JsonName: proto.String(name),
			Type: descriptorpb.FieldDescriptorProto_TYPE_STRING.Enum(), Label: descriptorpb.FieldDescriptorProto_LABEL_OPTIONAL.Enum()}
	}
	fdp := &descriptorpb.FileDescriptorProto{Name: proto.String("t/v1/t.proto"), Package: proto.String("t.v1"), Syntax: proto.String("proto3"),
		MessageType: []*descriptorpb.DescriptorProto{
			{Name: proto.String("A"), Field: []*descriptorpb.FieldDescriptorProto{msgField("b", 1, ".t.v1.B", false), msgField("self", 2, ".t.v1.A", true), str("name", 3)}},
			{Name: proto.String("B"), Field: []*descriptorpb.FieldDescriptorProto{msgField("a", 1, ".t.v1.A", false), msgField("shared", 2, ".t.v1.S", false)}},
			{Name: proto.String("C"), Field: []*descriptorpb.FieldDescriptorProto{str("x", 1), msgField("shared", 2, ".t.v1.S", false)}},
			{Name: proto.String("D"), Field: []*descriptorpb.FieldDescriptorProto{str("only", 1)}},
			{Name: proto.String("S"), Field: []*descriptorpb.FieldDescriptorProto{str("v", 1)}},
		}}
	// a second proto package, so that first use can create two package entries at once
	other := &descriptorpb.FileDescriptorProto{Name: proto.String("u/v1/u.proto"), Package: proto.String("u.v1"), Syntax: proto.String("proto3"),
		Dependency: []string{"t/v1/t.proto"},
		MessageType: []*descriptorpb.DescriptorProto{
			{Name: proto.String("E"), Field: []*descriptorpb.FieldDescriptorProto{str("x", 1), msgField("shared", 2, ".t.v1.S", false)}},
		}}
	return j5schema.VerifNewUniverse(fdp, other)
}

func HarnessConcurrentSchemaCache() {
	u := verifConcurrencyUniverse()
	names := []string{"t.v1.A", "t.v1.B", "t.v1.C", "t.v1.D", "u.v1.E"}
	n1, n2 := names[ndChoice("first", 5)], names[ndChoice("second", 5)]
	m1, m2 := u.Message(n1), u.Message(n2)
	cache := j5schema.NewSchemaCache()
	if ndBool("warm") {
		if _, err := cache.Schema(u.Message("t.v1.A")); err != nil {
			verifFail("warm-up-failed")
		}
	}
	var r1, r2 j5schema.RootSchema
	var e1, e2 error
	// each goroutine reflects its type and makes the first use of the schema the
	// way the codec does (newPropSet walks ClientProperties of the shared schema objects)
	use := func(r j5schema.RootSchema, e error, m *j5schema.VerifMessage) {
		if e != nil {
			return
		}
		switch s := r.(type) {
		case *j5schema.ObjectSchema:
			_, _ = newPropSet(s, m)
		case *j5schema.OneofSchema:
			_, _ = newPropSet(s, m)
		}
	}
	verifSpawn(func() { r1, e1 = cache.Schema(m1); use(r1, e1, m1) })
	verifSpawn(func() { r2, e2 = cache.Schema(m2); use(r2, e2, m2) })
	verifJoin()
	// each call returns what it returns when run alone
	alone := j5schema.NewSchemaCache()
	s1, se1 := alone.Schema(m1)
	alone2 := j5schema.NewSchemaCache()
	s2, se2 := alone2.Schema(m2)
	verifAssert((e1 == nil) == (se1 == nil) && (e2 == nil) == (se2 == nil), "same-verdict-as-alone")
	if e1 == nil && se1 == nil {
		verifAssertDeepEqual(r1.ToJ5Root(), s1.ToJ5Root(), "first-result-as-alone")
	}
	if e2 == nil && se2 == nil {
		verifAssertDeepEqual(r2.ToJ5Root(), s2.ToJ5Root(), "second-result-as-alone")
	}
}
