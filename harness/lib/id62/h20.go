package id62

// H20a: render/parse round trip over all 2^128 identifiers.
func HarnessId62RoundTrip() {
	var id UUID
	for i := range id {
		id[i] = ndByteInt("b")
	}
	s := id.String()
	verifAssert(len(s) == 22, "len22")
	back, err := Parse(s)
	verifAssert(err == nil, "parses")
	verifAssert(back == id, "roundtrip")
}
