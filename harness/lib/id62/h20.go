package id62

// H20a: render/parse round trip over all 2^128 identifiers.
func HarnessId62RoundTrip() {
	var id UUID
	for i := range id {
		id[i] = ndByteInt("b")
	}
	s := id.String()
	verifAssert(len(s) == 22, "len22")
	back, err := Parse(s)
	verifAssert(err == nil, "parses")
	verifAssert(back == id, "roundtrip")
}

func refIsBase62(c byte) bool {
	return verifAny(verifAll(c >= '0', c <= '9'), verifAll(c >= 'a', c <= 'z'), verifAll(c >= 'A', c <= 'Z'))
}

// refClass62: math/big's base-62 alphabet is 0-9 < a-z < A-Z
func refClass62(c byte) int {
	switch {
	case c >= '0' && c <= '9':
		return 0
	case c >= 'a' && c <= 'z':
		return 1
	}
	return 2
}

// refCmp62: order of two base-62 digits (-1, 0, 1), by comparisons only
func refCmp62(a, b byte) int {
	ca, cb := refClass62(a), refClass62(b)
	switch {
	case ca < cb:
		return -1
	case ca > cb:
		return 1
	case a < b:
		return -1
	case a > b:
		return 1
	}
	return 0
}

// 2^128-1 in math/big's base-62 alphabet
const verifMaxID62 = "7N42dgm5tFLK9N8MT7fHC7"

// H20b: the parser on arbitrary strings. The string is classified first
// (independently of the parser): not a base-62 numeral, or an unsigned numeral
// with more than 22 significant digits, or with 22 significant digits that
// exceed 2^128-1 digit by digit — each of these must be rejected; no input
// panics. What a signed numeral means is not specified (math/big accepts a
// sign), so only panic freedom is checked for those.
func HarnessId62ParseArbitrary() {
	n := ndIntRange("len", verifParam("minLen", 0), verifParam("L", 23))
	b := make([]byte, n)
	for i := range b {
		b[i] = ndByteInt("c")
	}
	mustReject, signed := false, false
	digits := b
	if n > 0 && (b[0] == '+' || b[0] == '-') {
		signed = true
		digits = b[1:]
	}
	if len(digits) == 0 {
		mustReject = true
	}
	numeral := true
	for _, c := range digits {
		numeral = verifAll(numeral, refIsBase62(c))
	}
	if !numeral {
		mustReject = true
	} else if !signed && len(digits) > 0 {
		k := 0
		for k < len(digits)-1 && digits[k] == '0' {
			k++
		}
		sig := digits[k:]
		if len(sig) > 22 {
			mustReject = true
		}
		if len(sig) == 22 {
			// one path per position of the first difference from 2^128-1
			for i := 0; i < 22; i++ {
				o := refCmp62(sig[i], verifMaxID62[i])
				if o > 0 {
					mustReject = true
				}
				if o != 0 {
					break
				}
			}
		}
	}
	_, err := Parse(string(b))
	if mustReject {
		verifAssert(err != nil, "not-an-identifier-rejected")
	} else {
		verifReach("not-classified-as-faulty")
	}
}

// H20c: hash-derived identifiers are a pure function of namespace and inputs —
// also when NewHash is called from two goroutines at once: no shared state may
// be touched without synchronisation, and each result equals the result of the
// same call made alone.
func HarnessNewHashConcurrent() {
	in1 := []string{"a", "bb"}[ndChoice("first", 2)]
	in2 := []string{"a", "bb"}[ndChoice("second", 2)]
	var r1, r2 UUID
	verifSpawn(func() { r1 = NewHash("ns", in1) })
	verifSpawn(func() { r2 = NewHash("ns", in2, "x") })
	verifJoin()
	verifAssert(r1 == NewHash("ns", in1), "first-hash-as-alone")
	verifAssert(r2 == NewHash("ns", in2, "x"), "second-hash-as-alone")
	verifAssert(NewHash("ns", in1) == NewHash("ns", in1), "same-inputs-same-identifier")
	verifAssert(NewHash("ns", "a") != NewHash("ns", "bb"), "different-inputs-differ")
}
