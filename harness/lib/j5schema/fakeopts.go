package j5schema

// fakedesc: options carrying extension fields. protobuf-go's Message.Range
// over an options message yields its extension fields in no particular order
// (they live in a Go map); here the order of every Range call is chosen by the
// harness (VerifUniverse.OptionOrder), so code that depends on it shows.

import (
	"google.golang.org/protobuf/reflect/protoreflect"
	"google.golang.org/protobuf/types/descriptorpb"
)

type VerifFakeOption struct {
	Desc  protoreflect.FieldDescriptor
	Value protoreflect.Value
}

// VerifSetFakeOptions attaches extension options to the element with the given full name.
func (u *VerifUniverse) VerifSetFakeOptions(fullName string, opts []VerifFakeOption) {
	if u.fakeOpts == nil {
		u.fakeOpts = map[string][]VerifFakeOption{}
	}
	u.fakeOpts[fullName] = opts
}

// VerifFakeExtension: an extension descriptor declared in a file of its own
// (package pkg), at position index among that file's extensions, whose value
// type is described by msg.
func (u *VerifUniverse) VerifFakeExtension(pkg, name string, number int32, index int, msg protoreflect.MessageDescriptor) protoreflect.FieldDescriptor {
	f := &VerifFile{fdp: &descriptorpb.FileDescriptorProto{Name: strPtr(pkg + "/annotations.proto"), Package: strPtr(pkg), Syntax: strPtr("proto3")}, u: u}
	label := descriptorpb.FieldDescriptorProto_LABEL_OPTIONAL
	typ := descriptorpb.FieldDescriptorProto_TYPE_MESSAGE
	return verifFakeExt{VerifField: &VerifField{fd: &descriptorpb.FieldDescriptorProto{Name: &name, Number: &number, Label: &label, Type: &typ}, idx: index, ext: f}, msgDesc: msg}
}

func strPtr(s string) *string { return &s }

type verifFakeExt struct {
	*VerifField
	msgDesc protoreflect.MessageDescriptor
}

func (x verifFakeExt) Message() protoreflect.MessageDescriptor           { return x.msgDesc }
func (x verifFakeExt) ContainingMessage() protoreflect.MessageDescriptor { return nil }
func (x verifFakeExt) Type() protoreflect.ExtensionType                  { return nil }
func (x verifFakeExt) Descriptor() protoreflect.ExtensionDescriptor      { return x }

// verifOptions: the options message of an element with fake extension options.
type verifOptions struct {
	protoreflect.Message
	u    *VerifUniverse
	opts []VerifFakeOption
}

func (o *verifOptions) ProtoReflect() protoreflect.Message { return o }
func (o *verifOptions) IsValid() bool                      { return true }
func (o *verifOptions) GetUnknown() protoreflect.RawFields { return nil }
func (o *verifOptions) Range(f func(protoreflect.FieldDescriptor, protoreflect.Value) bool) {
	order := make([]int, len(o.opts))
	for i := range order {
		order[i] = i
	}
	if o.u.OptionOrder != nil {
		order = o.u.OptionOrder(len(o.opts))
	}
	for _, i := range order {
		if !f(o.opts[i].Desc, o.opts[i].Value) {
			return
		}
	}
}

func (u *VerifUniverse) fakeOptionsOf(fullName string) (protoreflect.ProtoMessage, bool) {
	opts, ok := u.fakeOpts[fullName]
	if !ok {
		return nil, false
	}
	return &verifOptions{u: u, opts: opts}, true
}

// VerifCountFakeOptions: -1 when m is not a fake options message
func VerifCountFakeOptions(m protoreflect.ProtoMessage) int {
	if o, ok := m.(*verifOptions); ok {
		return len(o.opts)
	}
	return -1
}
