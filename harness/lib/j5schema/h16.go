package j5schema

import (
	"github.com/pentops/j5/gen/j5/schema/v1/schema_j5pb"
	"github.com/pentops/j5/gen/j5/source/v1/source_j5pb"
)

// H16a: schema walks terminate on self- and mutually-recursive schemas.
// The schema graph is drawn symbolically: up to G objects, each with one
// property whose target (another object, itself, a oneof, or a scalar) and
// shape (direct, array, map) are choices.
func HarnessWalkRecursiveSchemas() {
	g := ndIntRange("schemas", 1, verifParam("G", 2))
	names := []string{"A", "B", "C"}
	schemas := map[string]*schema_j5pb.RootSchema{}
	for i := 0; i < g; i++ {
		var f *schema_j5pb.Field
		target := ndChoice("target", g+2) // 0..g-1 objects, g = oneof W, g+1 = scalar
		switch {
		case target < g:
			f = &schema_j5pb.Field{Type: &schema_j5pb.Field_Object{Object: &schema_j5pb.ObjectField{Schema: &schema_j5pb.ObjectField_Ref{Ref: &schema_j5pb.Ref{Package: "a.v1", Schema: names[target]}}}}}
		case target == g:
			f = &schema_j5pb.Field{Type: &schema_j5pb.Field_Oneof{Oneof: &schema_j5pb.OneofField{Schema: &schema_j5pb.OneofField_Ref{Ref: &schema_j5pb.Ref{Package: "a.v1", Schema: "W"}}}}}
		default:
			f = &schema_j5pb.Field{Type: &schema_j5pb.Field_String_{String_: &schema_j5pb.StringField{}}}
		}
		switch ndChoice("shape", 3) {
		case 1:
			f = &schema_j5pb.Field{Type: &schema_j5pb.Field_Array{Array: &schema_j5pb.ArrayField{Items: f}}}
		case 2:
			f = &schema_j5pb.Field{Type: &schema_j5pb.Field_Map{Map: &schema_j5pb.MapField{ItemSchema: f}}}
		}
		schemas[names[i]] = &schema_j5pb.RootSchema{Type: &schema_j5pb.RootSchema_Object{Object: &schema_j5pb.Object{Name: names[i],
			Properties: []*schema_j5pb.ObjectProperty{{Name: "next", Schema: f, ProtoField: []int32{1}}, {Name: "label", ProtoField: []int32{2}, Schema: &schema_j5pb.Field{Type: &schema_j5pb.Field_String_{String_: &schema_j5pb.StringField{}}}}}}}}
	}
	// the oneof points back at the first object
	schemas["W"] = &schema_j5pb.RootSchema{Type: &schema_j5pb.RootSchema_Oneof{Oneof: &schema_j5pb.Oneof{Name: "W",
		Properties: []*schema_j5pb.ObjectProperty{{Name: "back", ProtoField: []int32{1}, Schema: &schema_j5pb.Field{Type: &schema_j5pb.Field_Object{Object: &schema_j5pb.ObjectField{Schema: &schema_j5pb.ObjectField_Ref{Ref: &schema_j5pb.Ref{Package: "a.v1", Schema: "A"}}}}}}}}}}
	set, err := PackageSetFromSourceAPI([]*source_j5pb.Package{{Name: "a.v1", Schemas: schemas}})
	verifAssert(err == nil, "recursive-schema-set-imports")
	if err != nil {
		return
	}
	root, err := set.SchemaByName("a.v1", "A")
	verifAssert(err == nil && root != nil, "root-found")
	if err != nil || root == nil {
		return
	}
	asClient := ndBool("asClient")
	visited := 0
	verifTermBudget(3000000)
	werr := WalkSchemaFields(root, asClient, func(p WalkProperty) error {
		visited++
		return nil
	})
	verifEndTermBudget()
	verifAssert(werr == nil, "walk-completes")
	verifAssert(visited >= 2, "walk-visits-the-root-properties")
}
