package j5schema

// fakedesc, file-level parts used by the printer and the API builder: syntax,
// imports, file-level extensions, services and methods, locations by path.

import (
	"google.golang.org/protobuf/reflect/protoreflect"
	"google.golang.org/protobuf/types/descriptorpb"
)

// scope: the message whose scope type names of this field are resolved from
// (a pseudo message standing for the package, for file-level extensions)
func (f *VerifField) scope() *VerifMessage {
	if f.ext != nil {
		return &VerifMessage{full: f.ext.fdp.GetPackage(), file: f.ext, dp: &descriptorpb.DescriptorProto{}}
	}
	return f.msg
}

func (f *VerifFile) Syntax() protoreflect.Syntax {
	if f.fdp.GetSyntax() == "proto3" {
		return protoreflect.Proto3
	}
	return protoreflect.Proto2
}

type verifImports struct {
	protoreflect.FileImports
	f *VerifFile
}

func (f *VerifFile) Imports() protoreflect.FileImports { return verifImports{f: f} }
func (l verifImports) Len() int                        { return len(l.f.fdp.Dependency) }
func (l verifImports) Get(i int) protoreflect.FileImport {
	dep := l.f.fdp.Dependency[i]
	for _, o := range l.f.u.Files {
		if o.fdp.GetName() == dep {
			return protoreflect.FileImport{FileDescriptor: o}
		}
	}
	return protoreflect.FileImport{FileDescriptor: &VerifFile{fdp: &descriptorpb.FileDescriptorProto{Name: &dep}, u: l.f.u}}
}

type verifExtensions struct {
	protoreflect.ExtensionDescriptors
	list []*VerifField
}

// Extensions: the file-level extension fields; an extendee that is not defined
// in the universe is a stub message of that name.
func (f *VerifFile) Extensions() protoreflect.ExtensionDescriptors {
	out := verifExtensions{}
	for i, fd := range f.fdp.Extension {
		scope := &VerifMessage{full: f.fdp.GetPackage(), file: f, dp: &descriptorpb.DescriptorProto{}}
		extendee, _ := f.u.resolve(fd.GetExtendee(), scope)
		out.list = append(out.list, &VerifField{fd: fd, msg: extendee, idx: i, ext: f})
	}
	return out
}
func (l verifExtensions) Len() int { return len(l.list) }
func (l verifExtensions) Get(i int) protoreflect.ExtensionDescriptor {
	return verifExtension{l.list[i]}
}

// verifExtension adds the ExtensionTypeDescriptor half of the interface
type verifExtension struct{ *VerifField }

func (x verifExtension) Type() protoreflect.ExtensionType             { return nil }
func (x verifExtension) Descriptor() protoreflect.ExtensionDescriptor { return x }

// ---- services ----

type VerifService struct {
	protoreflect.ServiceDescriptor
	sp      *descriptorpb.ServiceDescriptorProto
	file    *VerifFile
	idx     int
	methods []*VerifMethod
}

type VerifMethod struct {
	protoreflect.MethodDescriptor
	mp  *descriptorpb.MethodDescriptorProto
	svc *VerifService
	idx int
}

type verifServices struct {
	protoreflect.ServiceDescriptors
	list []*VerifService
}

func (f *VerifFile) Services() protoreflect.ServiceDescriptors {
	out := verifServices{}
	for i, sp := range f.fdp.Service {
		s := &VerifService{sp: sp, file: f, idx: i}
		for k, mp := range sp.Method {
			s.methods = append(s.methods, &VerifMethod{mp: mp, svc: s, idx: k})
		}
		out.list = append(out.list, s)
	}
	return out
}
func (l verifServices) Len() int                                 { return len(l.list) }
func (l verifServices) Get(i int) protoreflect.ServiceDescriptor { return l.list[i] }
func (l verifServices) ByName(n protoreflect.Name) protoreflect.ServiceDescriptor {
	for _, s := range l.list {
		if s.Name() == n {
			return s
		}
	}
	return nil
}

func (s *VerifService) Name() protoreflect.Name { return protoreflect.Name(s.sp.GetName()) }
func (s *VerifService) FullName() protoreflect.FullName {
	return protoreflect.FullName(s.file.fdp.GetPackage() + "." + s.sp.GetName())
}
func (s *VerifService) Index() int                              { return s.idx }
func (s *VerifService) ParentFile() protoreflect.FileDescriptor { return s.file }
func (s *VerifService) Parent() protoreflect.Descriptor         { return s.file }
func (s *VerifService) IsPlaceholder() bool                     { return false }
func (s *VerifService) Options() protoreflect.ProtoMessage {
	if o, ok := s.file.u.fakeOptionsOf(string(s.FullName())); ok {
		return o
	}
	if s.sp.Options == nil {
		return (*descriptorpb.ServiceOptions)(nil)
	}
	return s.sp.Options
}
func (s *VerifService) Methods() protoreflect.MethodDescriptors { return verifMethods{list: s.methods} }

type verifMethods struct {
	protoreflect.MethodDescriptors
	list []*VerifMethod
}

func (l verifMethods) Len() int                                { return len(l.list) }
func (l verifMethods) Get(i int) protoreflect.MethodDescriptor { return l.list[i] }
func (l verifMethods) ByName(n protoreflect.Name) protoreflect.MethodDescriptor {
	for _, m := range l.list {
		if m.Name() == n {
			return m
		}
	}
	return nil
}

func (m *VerifMethod) Name() protoreflect.Name { return protoreflect.Name(m.mp.GetName()) }
func (m *VerifMethod) FullName() protoreflect.FullName {
	return protoreflect.FullName(string(m.svc.FullName()) + "." + m.mp.GetName())
}
func (m *VerifMethod) Index() int                              { return m.idx }
func (m *VerifMethod) ParentFile() protoreflect.FileDescriptor { return m.svc.file }
func (m *VerifMethod) Parent() protoreflect.Descriptor         { return m.svc }
func (m *VerifMethod) IsPlaceholder() bool                     { return false }
func (m *VerifMethod) IsStreamingClient() bool                 { return m.mp.GetClientStreaming() }
func (m *VerifMethod) IsStreamingServer() bool                 { return m.mp.GetServerStreaming() }
func (m *VerifMethod) Options() protoreflect.ProtoMessage {
	if o, ok := m.svc.file.u.fakeOptionsOf(string(m.FullName())); ok {
		return o
	}
	if m.mp.Options == nil {
		return (*descriptorpb.MethodOptions)(nil)
	}
	return m.mp.Options
}
func (m *VerifMethod) scope() *VerifMessage {
	return &VerifMessage{full: m.svc.file.fdp.GetPackage(), file: m.svc.file, dp: &descriptorpb.DescriptorProto{}}
}
func (m *VerifMethod) Input() protoreflect.MessageDescriptor {
	in, _ := m.svc.file.u.resolve(m.mp.GetInputType(), m.scope())
	return in
}
func (m *VerifMethod) Output() protoreflect.MessageDescriptor {
	out, _ := m.svc.file.u.resolve(m.mp.GetOutputType(), m.scope())
	return out
}

// ByPath: the location recorded for exactly this path (nil: the file itself)
func (s verifSourceLocations) ByPath(path protoreflect.SourcePath) protoreflect.SourceLocation {
	if s.f.fdp.SourceCodeInfo == nil {
		return protoreflect.SourceLocation{}
	}
	for _, loc := range s.f.fdp.SourceCodeInfo.Location {
		if len(loc.Path) != len(path) {
			continue
		}
		same := true
		for i := range path {
			if loc.Path[i] != path[i] {
				same = false
			}
		}
		if same {
			return protoreflect.SourceLocation{LeadingComments: loc.GetLeadingComments(), TrailingComments: loc.GetTrailingComments(),
				LeadingDetachedComments: loc.LeadingDetachedComments}
		}
	}
	return protoreflect.SourceLocation{}
}

// VerifFileProto: the FileDescriptorProto this file was built from (what
// protodesc.ToFileDescriptorProto reconstructs).
func VerifFileProto(f protoreflect.FileDescriptor) *descriptorpb.FileDescriptorProto {
	return f.(*VerifFile).fdp
}
