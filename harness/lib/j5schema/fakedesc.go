package j5schema

// fakedesc: a minimal pure-Go implementation of the protoreflect descriptor
// interfaces over descriptorpb values (what protodesc.NewFile would build with
// the protobuf-go runtime, which the engine cannot execute). Only the methods
// j5 calls are implemented; any other method panics through the embedded nil
// interface and is reported by the engine as UNMODELLED, never as a violation.
//
// Name resolution follows the protobuf scoping rule: absolute names (leading
// dot) are looked up directly, relative names are searched from the innermost
// enclosing scope outwards. Types that are not defined in the given files are
// synthesised as empty stubs (messages) or from VerifStubEnums.

import (
	"strings"

	"google.golang.org/protobuf/proto"
	"google.golang.org/protobuf/reflect/protoreflect"
	"google.golang.org/protobuf/types/descriptorpb"
)

type VerifUniverse struct {
	Files    []*VerifFile
	messages map[string]*VerifMessage
	enums    map[string]*VerifEnum
	// StubEnums: values for enums referenced but not defined (full name -> value names in number order)
	StubEnums map[string][]string
	// StubOneofs: messages referenced but not defined that are j5 oneof wrappers
	StubOneofs map[string]bool
	// fake extension options per element (fakeopts.go) and the order in which
	// Range visits them (nil: as given)
	fakeOpts    map[string][]VerifFakeOption
	OptionOrder func(n int) []int
}

func VerifNewUniverse(fdps ...*descriptorpb.FileDescriptorProto) *VerifUniverse {
	u := &VerifUniverse{messages: map[string]*VerifMessage{}, enums: map[string]*VerifEnum{}, StubEnums: map[string][]string{}, StubOneofs: map[string]bool{}}
	for _, fdp := range fdps {
		f := &VerifFile{fdp: fdp, u: u}
		for i, dp := range fdp.MessageType {
			f.msgs = append(f.msgs, u.newMessage(f, nil, dp, fdp.GetPackage(), i))
		}
		for i, ep := range fdp.EnumType {
			f.enums = append(f.enums, u.newEnum(f, nil, ep, fdp.GetPackage(), i))
		}
		u.Files = append(u.Files, f)
	}
	return u
}

func (u *VerifUniverse) newMessage(f *VerifFile, parent *VerifMessage, dp *descriptorpb.DescriptorProto, scope string, idx int) *VerifMessage {
	full := dp.GetName()
	if scope != "" {
		full = scope + "." + dp.GetName()
	}
	m := &VerifMessage{dp: dp, file: f, parent: parent, full: full, idx: idx}
	u.messages[full] = m
	for i, od := range dp.OneofDecl {
		m.oneofs = append(m.oneofs, &VerifOneof{od: od, msg: m, idx: i})
	}
	for i, fd := range dp.Field {
		vf := &VerifField{fd: fd, msg: m, idx: i}
		if fd.OneofIndex != nil && int(fd.GetOneofIndex()) < len(m.oneofs) {
			vf.oneof = m.oneofs[fd.GetOneofIndex()]
			vf.oneof.fields = append(vf.oneof.fields, vf)
		}
		m.fields = append(m.fields, vf)
	}
	for i, nd := range dp.NestedType {
		m.nested = append(m.nested, u.newMessage(f, m, nd, full, i))
	}
	for i, ep := range dp.EnumType {
		m.enums = append(m.enums, u.newEnum(f, m, ep, full, i))
	}
	return m
}

func (u *VerifUniverse) newEnum(f *VerifFile, parent *VerifMessage, ep *descriptorpb.EnumDescriptorProto, scope string, idx int) *VerifEnum {
	full := ep.GetName()
	if scope != "" {
		full = scope + "." + ep.GetName()
	}
	e := &VerifEnum{ep: ep, file: f, parent: parent, full: full, idx: idx}
	for i, v := range ep.Value {
		e.values = append(e.values, &VerifEnumValue{vp: v, enum: e, idx: i})
	}
	u.enums[full] = e
	return e
}

func (u *VerifUniverse) Message(full string) *VerifMessage { return u.messages[full] }

// resolve finds a message or enum by the type name written in a field, from the scope of msg.
func (u *VerifUniverse) resolve(typeName string, from *VerifMessage) (*VerifMessage, *VerifEnum) {
	if strings.HasPrefix(typeName, ".") {
		n := typeName[1:]
		if m, ok := u.messages[n]; ok {
			return m, nil
		}
		if e, ok := u.enums[n]; ok {
			return nil, e
		}
		return u.stub(n)
	}
	scope := from.full
	for {
		cand := typeName
		if scope != "" {
			cand = scope + "." + typeName
		}
		if m, ok := u.messages[cand]; ok {
			return m, nil
		}
		if e, ok := u.enums[cand]; ok {
			return nil, e
		}
		if scope == "" {
			break
		}
		if i := strings.LastIndex(scope, "."); i >= 0 {
			scope = scope[:i]
		} else {
			scope = ""
		}
	}
	return u.stub(typeName)
}

func (u *VerifUniverse) stub(full string) (*VerifMessage, *VerifEnum) {
	pkg, name := full, full
	if i := strings.LastIndex(full, "."); i >= 0 {
		pkg, name = full[:i], full[i+1:]
	}
	f := &VerifFile{fdp: &descriptorpb.FileDescriptorProto{Name: proto.String("stub/" + full + ".proto"), Package: proto.String(pkg)}, u: u}
	if vals, ok := u.StubEnums[full]; ok {
		ep := &descriptorpb.EnumDescriptorProto{Name: proto.String(name)}
		for i, v := range vals {
			ep.Value = append(ep.Value, &descriptorpb.EnumValueDescriptorProto{Name: proto.String(v), Number: proto.Int32(int32(i))})
		}
		e := u.newEnum(f, nil, ep, pkg, 0)
		f.enums = append(f.enums, e)
		return nil, e
	}
	dp := &descriptorpb.DescriptorProto{Name: proto.String(name)}
	if u.StubOneofs[full] {
		dp.OneofDecl = []*descriptorpb.OneofDescriptorProto{{Name: proto.String("type")}}
	}
	m := u.newMessage(f, nil, dp, pkg, 0)
	f.msgs = append(f.msgs, m)
	return m, nil
}

// ---- file ----

type VerifFile struct {
	protoreflect.FileDescriptor
	fdp   *descriptorpb.FileDescriptorProto
	u     *VerifUniverse
	msgs  []*VerifMessage
	enums []*VerifEnum
}

func (f *VerifFile) Path() string                   { return f.fdp.GetName() }
func (f *VerifFile) Package() protoreflect.FullName { return protoreflect.FullName(f.fdp.GetPackage()) }
func (f *VerifFile) Name() protoreflect.Name        { return "" }
func (f *VerifFile) FullName() protoreflect.FullName {
	return protoreflect.FullName(f.fdp.GetPackage())
}
func (f *VerifFile) ParentFile() protoreflect.FileDescriptor { return f }
func (f *VerifFile) Parent() protoreflect.Descriptor         { return nil }
func (f *VerifFile) Options() protoreflect.ProtoMessage {
	if f.fdp.Options == nil {
		return (*descriptorpb.FileOptions)(nil)
	}
	return f.fdp.Options
}
func (f *VerifFile) Messages() protoreflect.MessageDescriptors { return verifMessages{list: f.msgs} }
func (f *VerifFile) Enums() protoreflect.EnumDescriptors       { return verifEnums{list: f.enums} }
func (f *VerifFile) SourceLocations() protoreflect.SourceLocations {
	return verifSourceLocations{f: f}
}
func (f *VerifFile) Message(i int) *VerifMessage { return f.msgs[i] }

type verifSourceLocations struct {
	protoreflect.SourceLocations
	f *VerifFile
}

func verifPathOf(d protoreflect.Descriptor) ([]int32, bool) {
	switch x := d.(type) {
	case *VerifMessage:
		if x.parent == nil {
			return []int32{4, int32(x.idx)}, true
		}
		p, ok := verifPathOf(x.parent)
		return append(p, 3, int32(x.idx)), ok
	case *VerifField:
		if x.ext != nil {
			return []int32{7, int32(x.idx)}, true
		}
		p, ok := verifPathOf(x.msg)
		return append(p, 2, int32(x.idx)), ok
	case verifExtension:
		return []int32{7, int32(x.idx)}, true
	case *VerifService:
		return []int32{6, int32(x.idx)}, true
	case *VerifMethod:
		return []int32{6, int32(x.svc.idx), 2, int32(x.idx)}, true
	case *VerifEnum:
		if x.parent == nil {
			return []int32{5, int32(x.idx)}, true
		}
		p, ok := verifPathOf(x.parent)
		return append(p, 4, int32(x.idx)), ok
	case *VerifEnumValue:
		p, ok := verifPathOf(x.enum)
		return append(p, 2, int32(x.idx)), ok
	case *VerifOneof:
		p, ok := verifPathOf(x.msg)
		return append(p, 8, int32(x.idx)), ok
	}
	return nil, false
}

func (s verifSourceLocations) ByDescriptor(d protoreflect.Descriptor) protoreflect.SourceLocation {
	path, ok := verifPathOf(d)
	if !ok || s.f.fdp.SourceCodeInfo == nil {
		return protoreflect.SourceLocation{}
	}
	for _, loc := range s.f.fdp.SourceCodeInfo.Location {
		if len(loc.Path) != len(path) {
			continue
		}
		same := true
		for i := range path {
			if loc.Path[i] != path[i] {
				same = false
			}
		}
		if same {
			out := protoreflect.SourceLocation{Path: protoreflect.SourcePath(path), LeadingComments: loc.GetLeadingComments(), TrailingComments: loc.GetTrailingComments()}
			if len(loc.Span) > 0 {
				out.StartLine = int(loc.Span[0])
				out.EndLine = int(loc.Span[0])
			}
			if len(loc.Span) == 4 {
				out.EndLine = int(loc.Span[2])
			}
			out.LeadingDetachedComments = loc.LeadingDetachedComments
			return out
		}
	}
	return protoreflect.SourceLocation{}
}

// ---- message ----

type VerifMessage struct {
	protoreflect.MessageDescriptor
	dp     *descriptorpb.DescriptorProto
	file   *VerifFile
	parent *VerifMessage
	full   string
	idx    int
	fields []*VerifField
	oneofs []*VerifOneof
	nested []*VerifMessage
	enums  []*VerifEnum
}

func (m *VerifMessage) Name() protoreflect.Name                 { return protoreflect.Name(m.dp.GetName()) }
func (m *VerifMessage) FullName() protoreflect.FullName         { return protoreflect.FullName(m.full) }
func (m *VerifMessage) Index() int                              { return m.idx }
func (m *VerifMessage) ParentFile() protoreflect.FileDescriptor { return m.file }
func (m *VerifMessage) IsPlaceholder() bool                     { return false }
func (m *VerifMessage) Parent() protoreflect.Descriptor {
	if m.parent == nil {
		return m.file
	}
	return m.parent
}
func (m *VerifMessage) Options() protoreflect.ProtoMessage {
	if o, ok := m.file.u.fakeOptionsOf(m.full); ok {
		return o
	}
	if m.dp.Options == nil {
		return (*descriptorpb.MessageOptions)(nil)
	}
	return m.dp.Options
}
func (m *VerifMessage) IsMapEntry() bool                      { return m.dp.GetOptions().GetMapEntry() }
func (m *VerifMessage) Fields() protoreflect.FieldDescriptors { return verifFields{list: m.fields} }
func (m *VerifMessage) Oneofs() protoreflect.OneofDescriptors { return verifOneofs{list: m.oneofs} }
func (m *VerifMessage) Messages() protoreflect.MessageDescriptors {
	return verifMessages{list: m.nested}
}
func (m *VerifMessage) Enums() protoreflect.EnumDescriptors { return verifEnums{list: m.enums} }

type verifMessages struct {
	protoreflect.MessageDescriptors
	list []*VerifMessage
}

func (l verifMessages) Len() int                                 { return len(l.list) }
func (l verifMessages) Get(i int) protoreflect.MessageDescriptor { return l.list[i] }
func (l verifMessages) ByName(n protoreflect.Name) protoreflect.MessageDescriptor {
	for _, m := range l.list {
		if m.Name() == n {
			return m
		}
	}
	return nil
}

// ---- fields ----

type VerifField struct {
	protoreflect.FieldDescriptor
	fd    *descriptorpb.FieldDescriptorProto
	msg   *VerifMessage
	idx   int
	oneof *VerifOneof
	ext   *VerifFile // set for a file-level extension field: the declaring file (msg is the extendee)
}

func (f *VerifField) Name() protoreflect.Name { return protoreflect.Name(f.fd.GetName()) }
func (f *VerifField) FullName() protoreflect.FullName {
	if f.ext != nil {
		if f.ext.fdp.GetPackage() == "" {
			return protoreflect.FullName(f.fd.GetName())
		}
		return protoreflect.FullName(f.ext.fdp.GetPackage() + "." + f.fd.GetName())
	}
	return protoreflect.FullName(f.msg.full + "." + f.fd.GetName())
}
func (f *VerifField) IsExtension() bool { return f.ext != nil }
func (f *VerifField) Index() int        { return f.idx }
func (f *VerifField) Number() protoreflect.FieldNumber {
	return protoreflect.FieldNumber(f.fd.GetNumber())
}
func (f *VerifField) Kind() protoreflect.Kind { return protoreflect.Kind(f.fd.GetType()) }
func (f *VerifField) ParentFile() protoreflect.FileDescriptor {
	if f.ext != nil {
		return f.ext
	}
	return f.msg.file
}
func (f *VerifField) Parent() protoreflect.Descriptor {
	if f.ext != nil {
		return f.ext
	}
	return f.msg
}
func (f *VerifField) ContainingMessage() protoreflect.MessageDescriptor {
	return f.msg
}
func (f *VerifField) JSONName() string {
	if f.fd.JsonName != nil {
		return f.fd.GetJsonName()
	}
	// protoc's default: lowerCamel of the proto name
	out := []byte{}
	up := false
	for i := 0; i < len(f.fd.GetName()); i++ {
		c := f.fd.GetName()[i]
		if c == '_' {
			up = true
			continue
		}
		if up && c >= 'a' && c <= 'z' {
			c = c - 'a' + 'A'
		}
		up = false
		out = append(out, c)
	}
	return string(out)
}
func (f *VerifField) TextName() string { return f.fd.GetName() }
func (f *VerifField) Options() protoreflect.ProtoMessage {
	if o, ok := f.msg.file.u.fakeOptionsOf(string(f.FullName())); ok {
		return o
	}
	if f.fd.Options == nil {
		return (*descriptorpb.FieldOptions)(nil)
	}
	return f.fd.Options
}
func (f *VerifField) Cardinality() protoreflect.Cardinality {
	return protoreflect.Cardinality(f.fd.GetLabel())
}
func (f *VerifField) IsMap() bool {
	if f.fd.GetLabel() != descriptorpb.FieldDescriptorProto_LABEL_REPEATED || f.fd.GetType() != descriptorpb.FieldDescriptorProto_TYPE_MESSAGE {
		return false
	}
	m, _ := f.msg.file.u.resolve(f.fd.GetTypeName(), f.msg)
	return m != nil && m.IsMapEntry()
}
func (f *VerifField) IsList() bool {
	return f.fd.GetLabel() == descriptorpb.FieldDescriptorProto_LABEL_REPEATED && !f.IsMap()
}
func (f *VerifField) MapKey() protoreflect.FieldDescriptor {
	if !f.IsMap() {
		return nil
	}
	m, _ := f.msg.file.u.resolve(f.fd.GetTypeName(), f.msg)
	return m.fields[0]
}
func (f *VerifField) MapValue() protoreflect.FieldDescriptor {
	if !f.IsMap() {
		return nil
	}
	m, _ := f.msg.file.u.resolve(f.fd.GetTypeName(), f.msg)
	return m.fields[1]
}
func (f *VerifField) HasOptionalKeyword() bool { return f.fd.GetProto3Optional() }
func (f *VerifField) HasPresence() bool {
	return f.fd.GetProto3Optional() || f.oneof != nil || (f.fd.GetType() == descriptorpb.FieldDescriptorProto_TYPE_MESSAGE && f.fd.GetLabel() != descriptorpb.FieldDescriptorProto_LABEL_REPEATED)
}
func (f *VerifField) ContainingOneof() protoreflect.OneofDescriptor {
	if f.oneof == nil {
		return nil
	}
	return f.oneof
}
func (f *VerifField) Message() protoreflect.MessageDescriptor {
	if f.fd.GetType() != descriptorpb.FieldDescriptorProto_TYPE_MESSAGE && f.fd.GetType() != descriptorpb.FieldDescriptorProto_TYPE_GROUP {
		return nil
	}
	m, _ := f.msg.file.u.resolve(f.fd.GetTypeName(), f.scope())
	if m == nil {
		return nil
	}
	return m
}
func (f *VerifField) Enum() protoreflect.EnumDescriptor {
	if f.fd.GetType() != descriptorpb.FieldDescriptorProto_TYPE_ENUM {
		return nil
	}
	_, e := f.msg.file.u.resolve(f.fd.GetTypeName(), f.scope())
	if e == nil {
		return nil
	}
	return e
}

type verifFields struct {
	protoreflect.FieldDescriptors
	list []*VerifField
}

func (l verifFields) Len() int                               { return len(l.list) }
func (l verifFields) Get(i int) protoreflect.FieldDescriptor { return l.list[i] }
func (l verifFields) ByName(n protoreflect.Name) protoreflect.FieldDescriptor {
	for _, f := range l.list {
		if f.Name() == n {
			return f
		}
	}
	return nil
}
func (l verifFields) ByJSONName(n string) protoreflect.FieldDescriptor {
	for _, f := range l.list {
		if f.JSONName() == n {
			return f
		}
	}
	return nil
}
func (l verifFields) ByNumber(n protoreflect.FieldNumber) protoreflect.FieldDescriptor {
	for _, f := range l.list {
		if f.Number() == n {
			return f
		}
	}
	return nil
}

// ---- oneofs ----

type VerifOneof struct {
	protoreflect.OneofDescriptor
	od     *descriptorpb.OneofDescriptorProto
	msg    *VerifMessage
	idx    int
	fields []*VerifField
}

func (o *VerifOneof) Name() protoreflect.Name { return protoreflect.Name(o.od.GetName()) }
func (o *VerifOneof) FullName() protoreflect.FullName {
	return protoreflect.FullName(o.msg.full + "." + o.od.GetName())
}
func (o *VerifOneof) Index() int                              { return o.idx }
func (o *VerifOneof) ParentFile() protoreflect.FileDescriptor { return o.msg.file }
func (o *VerifOneof) Parent() protoreflect.Descriptor         { return o.msg }
func (o *VerifOneof) IsSynthetic() bool {
	return len(o.fields) == 1 && o.fields[0].fd.GetProto3Optional()
}
func (o *VerifOneof) Options() protoreflect.ProtoMessage {
	if o.od.Options == nil {
		return (*descriptorpb.OneofOptions)(nil)
	}
	return o.od.Options
}
func (o *VerifOneof) Fields() protoreflect.FieldDescriptors { return verifFields{list: o.fields} }

type verifOneofs struct {
	protoreflect.OneofDescriptors
	list []*VerifOneof
}

func (l verifOneofs) Len() int                               { return len(l.list) }
func (l verifOneofs) Get(i int) protoreflect.OneofDescriptor { return l.list[i] }
func (l verifOneofs) ByName(n protoreflect.Name) protoreflect.OneofDescriptor {
	for _, o := range l.list {
		if o.Name() == n {
			return o
		}
	}
	return nil
}

// ---- enums ----

type VerifEnum struct {
	protoreflect.EnumDescriptor
	ep     *descriptorpb.EnumDescriptorProto
	file   *VerifFile
	parent *VerifMessage
	full   string
	idx    int
	values []*VerifEnumValue
}

func (e *VerifEnum) Name() protoreflect.Name                 { return protoreflect.Name(e.ep.GetName()) }
func (e *VerifEnum) FullName() protoreflect.FullName         { return protoreflect.FullName(e.full) }
func (e *VerifEnum) Index() int                              { return e.idx }
func (e *VerifEnum) ParentFile() protoreflect.FileDescriptor { return e.file }
func (e *VerifEnum) IsPlaceholder() bool                     { return false }
func (e *VerifEnum) Parent() protoreflect.Descriptor {
	if e.parent == nil {
		return e.file
	}
	return e.parent
}
func (e *VerifEnum) Options() protoreflect.ProtoMessage {
	if o, ok := e.file.u.fakeOptionsOf(e.full); ok {
		return o
	}
	if e.ep.Options == nil {
		return (*descriptorpb.EnumOptions)(nil)
	}
	return e.ep.Options
}
func (e *VerifEnum) Values() protoreflect.EnumValueDescriptors {
	return verifEnumValues{list: e.values}
}

type verifEnums struct {
	protoreflect.EnumDescriptors
	list []*VerifEnum
}

func (l verifEnums) Len() int                              { return len(l.list) }
func (l verifEnums) Get(i int) protoreflect.EnumDescriptor { return l.list[i] }
func (l verifEnums) ByName(n protoreflect.Name) protoreflect.EnumDescriptor {
	for _, e := range l.list {
		if e.Name() == n {
			return e
		}
	}
	return nil
}

type VerifEnumValue struct {
	protoreflect.EnumValueDescriptor
	vp   *descriptorpb.EnumValueDescriptorProto
	enum *VerifEnum
	idx  int
}

func (v *VerifEnumValue) Name() protoreflect.Name { return protoreflect.Name(v.vp.GetName()) }
func (v *VerifEnumValue) FullName() protoreflect.FullName {
	return protoreflect.FullName(v.enum.full + "." + v.vp.GetName())
}
func (v *VerifEnumValue) Index() int { return v.idx }
func (v *VerifEnumValue) Number() protoreflect.EnumNumber {
	return protoreflect.EnumNumber(v.vp.GetNumber())
}
func (v *VerifEnumValue) ParentFile() protoreflect.FileDescriptor { return v.enum.file }
func (v *VerifEnumValue) Parent() protoreflect.Descriptor         { return v.enum }
func (v *VerifEnumValue) Options() protoreflect.ProtoMessage {
	if o, ok := v.enum.file.u.fakeOptionsOf(string(v.FullName())); ok {
		return o
	}
	if v.vp.Options == nil {
		return (*descriptorpb.EnumValueOptions)(nil)
	}
	return v.vp.Options
}

type verifEnumValues struct {
	protoreflect.EnumValueDescriptors
	list []*VerifEnumValue
}

func (l verifEnumValues) Len() int                                   { return len(l.list) }
func (l verifEnumValues) Get(i int) protoreflect.EnumValueDescriptor { return l.list[i] }
func (l verifEnumValues) ByNumber(n protoreflect.EnumNumber) protoreflect.EnumValueDescriptor {
	for _, v := range l.list {
		if v.Number() == n {
			return v
		}
	}
	return nil
}
func (l verifEnumValues) ByName(n protoreflect.Name) protoreflect.EnumValueDescriptor {
	for _, v := range l.list {
		if v.Name() == n {
			return v
		}
	}
	return nil
}
