package j5schema

// Overlay-only constructors so harnesses in other packages can build schema
// values whose fields are unexported. Nothing here is added to /repo.

func VerifEnumSchema(prefix string, names []string) *EnumSchema {
	es := &EnumSchema{NamePrefix: prefix}
	es.name = "E"
	for i, n := range names {
		es.Options = append(es.Options, &EnumOption{name: n, number: int32(i)})
	}
	return es
}

func VerifEnumField(es *EnumSchema) *EnumField {
	return &EnumField{Ref: &RefSchema{Schema: "E", To: es}}
}

// VerifCachePackages exposes the packages a SchemaCache has built so far.
func VerifCachePackages(sc *SchemaCache) map[string]*Package { return sc.packages }
