package j5schema

// Overlay-only constructors so harnesses in other packages can build schema
// values whose fields are unexported. Nothing here is added to /repo.

import "google.golang.org/protobuf/types/descriptorpb"

func VerifEnumSchema(prefix string, names []string) *EnumSchema {
	es := &EnumSchema{NamePrefix: prefix}
	es.name = "E"
	for i, n := range names {
		es.Options = append(es.Options, &EnumOption{name: n, number: int32(i)})
	}
	return es
}

func VerifEnumField(es *EnumSchema) *EnumField {
	return &EnumField{Ref: &RefSchema{Schema: "E", To: es}}
}

// VerifCachePackages exposes the packages a SchemaCache has built so far.
func VerifCachePackages(sc *SchemaCache) map[string]*Package { return sc.packages }

// VerifResolveFrom resolves a type name written in `from`'s scope by the
// protobuf scoping rule (innermost scope first); nil when it does not resolve.
func (u *VerifUniverse) VerifResolveFrom(typeName string, from *VerifMessage) (*VerifMessage, *VerifEnum) {
	if len(typeName) > 0 && typeName[0] == '.' {
		// fully qualified
		return u.messages[typeName[1:]], u.enums[typeName[1:]]
	}
	if m, ok := u.lookupRelative(typeName, from); ok {
		return m, nil
	}
	if e, ok := u.lookupRelativeEnum(typeName, from); ok {
		return nil, e
	}
	return nil, nil
}

// protoc resolves a relative name by looking for its FIRST component in each
// enclosing scope, innermost first; once that component is found the rest of
// the name must resolve inside it (no backtracking to outer scopes).
func (u *VerifUniverse) firstComponentScope(typeName string, from *VerifMessage) (string, bool) {
	first := typeName
	if i := indexByte(typeName, '.'); i >= 0 {
		first = typeName[:i]
	}
	scope := from.full
	for {
		cand := first
		if scope != "" {
			cand = scope + "." + first
		}
		if _, ok := u.messages[cand]; ok {
			return scope, true
		}
		if _, ok := u.enums[cand]; ok {
			return scope, true
		}
		if cand == u.packageOf(from) { // a package segment
			return scope, true
		}
		if scope == "" {
			return "", false
		}
		if i := lastIndexByte(scope, '.'); i >= 0 {
			scope = scope[:i]
		} else {
			scope = ""
		}
	}
}

func (u *VerifUniverse) packageOf(m *VerifMessage) string { return m.file.fdp.GetPackage() }

func (u *VerifUniverse) lookupRelative(typeName string, from *VerifMessage) (*VerifMessage, bool) {
	scope, ok := u.firstComponentScope(typeName, from)
	if !ok {
		return nil, false
	}
	full := typeName
	if scope != "" {
		full = scope + "." + typeName
	}
	m, ok := u.messages[full]
	return m, ok
}

func (u *VerifUniverse) lookupRelativeEnum(typeName string, from *VerifMessage) (*VerifEnum, bool) {
	scope, ok := u.firstComponentScope(typeName, from)
	if !ok {
		return nil, false
	}
	full := typeName
	if scope != "" {
		full = scope + "." + typeName
	}
	e, ok := u.enums[full]
	return e, ok
}

func indexByte(s string, c byte) int {
	for i := 0; i < len(s); i++ {
		if s[i] == c {
			return i
		}
	}
	return -1
}

func lastIndexByte(s string, c byte) int {
	for i := len(s) - 1; i >= 0; i-- {
		if s[i] == c {
			return i
		}
	}
	return -1
}

func (m *VerifMessage) VerifNested(i int) *VerifMessage { return m.nested[i] }
func (m *VerifMessage) VerifNestedCount() int           { return len(m.nested) }
func (m *VerifMessage) VerifFullName() string           { return m.full }
func (u *VerifUniverse) VerifAllMessages() []*VerifMessage {
	out := []*VerifMessage{}
	var add func(m *VerifMessage)
	add = func(m *VerifMessage) {
		out = append(out, m)
		for _, n := range m.nested {
			add(n)
		}
	}
	for _, f := range u.Files {
		for _, m := range f.msgs {
			add(m)
		}
	}
	return out
}

// VerifPackageScope: a pseudo message standing for the package scope of file i
// (type names written at file level, e.g. rpc input/output types, resolve from here)
func (u *VerifUniverse) VerifPackageScope(i int) *VerifMessage {
	f := u.Files[i]
	return &VerifMessage{full: f.fdp.GetPackage(), file: f, dp: &descriptorpb.DescriptorProto{}}
}
