package j5schema

// fakemsg: a pure-Go protoreflect.Message over fakedesc descriptors with the
// documented semantics of protobuf-go's dynamic messages, as far as j5 uses
// them: proto3 presence (scalars without presence are set iff non-zero;
// optional, oneof members and messages are set iff assigned), oneof
// exclusivity, lists and string-keyed maps, panics on invalid Values and on
// field descriptors of another message. It lets the real j5reflect property
// sets and the real codec traversal run on whole messages. Range visits set
// fields in field-number order.

import (
	"google.golang.org/protobuf/reflect/protoreflect"
)

type VerifDynMessage struct {
	protoreflect.Message
	desc     *VerifMessage
	vals     map[int32]protoreflect.Value
	readOnly bool // the empty message returned by Get on an unset message field
}

func VerifNewDynMessage(d *VerifMessage) *VerifDynMessage {
	return &VerifDynMessage{desc: d, vals: map[int32]protoreflect.Value{}}
}

type verifProtoMsg struct{ m *VerifDynMessage }

func (p verifProtoMsg) ProtoReflect() protoreflect.Message { return p.m }

type verifMsgType struct {
	protoreflect.MessageType
	d *VerifMessage
}

func (t verifMsgType) New() protoreflect.Message { return VerifNewDynMessage(t.d) }
func (t verifMsgType) Zero() protoreflect.Message {
	return &VerifDynMessage{desc: t.d, vals: map[int32]protoreflect.Value{}, readOnly: true}
}
func (t verifMsgType) Descriptor() protoreflect.MessageDescriptor { return t.d }

func (m *VerifDynMessage) Descriptor() protoreflect.MessageDescriptor { return m.desc }
func (m *VerifDynMessage) Type() protoreflect.MessageType             { return verifMsgType{d: m.desc} }
func (m *VerifDynMessage) New() protoreflect.Message                  { return VerifNewDynMessage(m.desc) }
func (m *VerifDynMessage) Interface() protoreflect.ProtoMessage       { return verifProtoMsg{m} }
func (m *VerifDynMessage) IsValid() bool                              { return m != nil && !m.readOnly }
func (m *VerifDynMessage) GetUnknown() protoreflect.RawFields         { return nil }
func (m *VerifDynMessage) SetUnknown(protoreflect.RawFields)          {}

func (m *VerifDynMessage) field(fd protoreflect.FieldDescriptor) *VerifField {
	vf, ok := fd.(*VerifField)
	if !ok || vf.msg != m.desc {
		verifPanic("protoreflect: field descriptor does not belong to this message (protobuf-go panics)")
	}
	return vf
}

func verifZeroOf(vf *VerifField) protoreflect.Value {
	switch vf.Kind() {
	case protoreflect.BoolKind:
		return protoreflect.ValueOfBool(false)
	case protoreflect.Int32Kind, protoreflect.Sint32Kind, protoreflect.Sfixed32Kind:
		return protoreflect.ValueOfInt32(0)
	case protoreflect.Int64Kind, protoreflect.Sint64Kind, protoreflect.Sfixed64Kind:
		return protoreflect.ValueOfInt64(0)
	case protoreflect.Uint32Kind, protoreflect.Fixed32Kind:
		return protoreflect.ValueOfUint32(0)
	case protoreflect.Uint64Kind, protoreflect.Fixed64Kind:
		return protoreflect.ValueOfUint64(0)
	case protoreflect.FloatKind:
		return protoreflect.ValueOfFloat32(0)
	case protoreflect.DoubleKind:
		return protoreflect.ValueOfFloat64(0)
	case protoreflect.StringKind:
		return protoreflect.ValueOfString("")
	case protoreflect.BytesKind:
		return protoreflect.ValueOfBytes(nil)
	case protoreflect.EnumKind:
		return protoreflect.ValueOfEnum(0)
	}
	return protoreflect.Value{}
}

func verifIsZero(vf *VerifField, v protoreflect.Value) bool {
	switch vf.Kind() {
	case protoreflect.BoolKind:
		return !v.Bool()
	case protoreflect.Int32Kind, protoreflect.Sint32Kind, protoreflect.Sfixed32Kind, protoreflect.Int64Kind, protoreflect.Sint64Kind, protoreflect.Sfixed64Kind:
		return v.Int() == 0
	case protoreflect.Uint32Kind, protoreflect.Fixed32Kind, protoreflect.Uint64Kind, protoreflect.Fixed64Kind:
		return v.Uint() == 0
	case protoreflect.StringKind:
		return len(v.String()) == 0
	case protoreflect.BytesKind:
		return len(v.Bytes()) == 0
	case protoreflect.EnumKind:
		return v.Enum() == 0
	}
	return false
}

func (m *VerifDynMessage) Has(fd protoreflect.FieldDescriptor) bool {
	vf := m.field(fd)
	v, ok := m.vals[vf.fd.GetNumber()]
	if !ok {
		return false
	}
	if vf.IsList() {
		return v.List().Len() > 0
	}
	if vf.IsMap() {
		return v.Map().Len() > 0
	}
	if vf.HasPresence() {
		return true
	}
	return !verifIsZero(vf, v)
}

func (m *VerifDynMessage) Get(fd protoreflect.FieldDescriptor) protoreflect.Value {
	vf := m.field(fd)
	if v, ok := m.vals[vf.fd.GetNumber()]; ok {
		return v
	}
	if vf.IsList() {
		return protoreflect.ValueOfList(&VerifDynList{field: vf, readOnly: true})
	}
	if vf.IsMap() {
		return protoreflect.ValueOfMap(&VerifDynMap{field: vf, readOnly: true})
	}
	if vf.Kind() == protoreflect.MessageKind {
		if md, ok := vf.Message().(*VerifMessage); ok {
			return protoreflect.ValueOfMessage(&VerifDynMessage{desc: md, vals: map[int32]protoreflect.Value{}, readOnly: true})
		}
		return protoreflect.Value{}
	}
	return verifZeroOf(vf)
}

func (m *VerifDynMessage) clearOneofSiblings(vf *VerifField) {
	if vf.oneof == nil {
		return
	}
	for _, sib := range vf.oneof.fields {
		if sib != vf {
			delete(m.vals, sib.fd.GetNumber())
		}
	}
}

func (m *VerifDynMessage) Set(fd protoreflect.FieldDescriptor, v protoreflect.Value) {
	vf := m.field(fd)
	if m.readOnly {
		verifPanic("protoreflect: Set on a read-only message (protobuf-go panics)")
	}
	if !v.IsValid() {
		verifPanic("protoreflect: Set with an invalid Value (protobuf-go panics)")
	}
	m.clearOneofSiblings(vf)
	m.vals[vf.fd.GetNumber()] = v
}

func (m *VerifDynMessage) Clear(fd protoreflect.FieldDescriptor) {
	vf := m.field(fd)
	if m.readOnly {
		verifPanic("protoreflect: Clear on a read-only message (protobuf-go panics)")
	}
	delete(m.vals, vf.fd.GetNumber())
}

func (m *VerifDynMessage) NewField(fd protoreflect.FieldDescriptor) protoreflect.Value {
	vf := m.field(fd)
	if vf.IsList() {
		return protoreflect.ValueOfList(&VerifDynList{field: vf})
	}
	if vf.IsMap() {
		return protoreflect.ValueOfMap(&VerifDynMap{field: vf})
	}
	if vf.Kind() == protoreflect.MessageKind {
		if md, ok := vf.Message().(*VerifMessage); ok {
			return protoreflect.ValueOfMessage(VerifNewDynMessage(md))
		}
		verifPanic("fakemsg: NewField for a non-fakedesc message type")
	}
	return verifZeroOf(vf)
}

func (m *VerifDynMessage) Mutable(fd protoreflect.FieldDescriptor) protoreflect.Value {
	vf := m.field(fd)
	if m.readOnly {
		verifPanic("protoreflect: Mutable on a read-only message (protobuf-go panics)")
	}
	if !(vf.IsList() || vf.IsMap() || vf.Kind() == protoreflect.MessageKind) {
		verifPanic("protoreflect: Mutable on a scalar field (protobuf-go panics)")
	}
	if v, ok := m.vals[vf.fd.GetNumber()]; ok {
		return v
	}
	v := m.NewField(fd)
	m.clearOneofSiblings(vf)
	m.vals[vf.fd.GetNumber()] = v
	return v
}

func (m *VerifDynMessage) WhichOneof(od protoreflect.OneofDescriptor) protoreflect.FieldDescriptor {
	vo, ok := od.(*VerifOneof)
	if !ok || vo.msg != m.desc {
		verifPanic("protoreflect: oneof descriptor does not belong to this message")
	}
	for _, f := range vo.fields {
		if _, ok := m.vals[f.fd.GetNumber()]; ok {
			return f
		}
	}
	return nil
}

func (m *VerifDynMessage) Range(f func(protoreflect.FieldDescriptor, protoreflect.Value) bool) {
	// field-number order (protobuf-go leaves the order undefined)
	var nums []int32
	for _, vf := range m.desc.fields {
		nums = append(nums, vf.fd.GetNumber())
	}
	for i := 0; i < len(nums); i++ {
		for k := i + 1; k < len(nums); k++ {
			if nums[k] < nums[i] {
				nums[i], nums[k] = nums[k], nums[i]
			}
		}
	}
	for _, n := range nums {
		var vf *VerifField
		for _, c := range m.desc.fields {
			if c.fd.GetNumber() == n {
				vf = c
			}
		}
		if vf == nil || !m.Has(vf) {
			continue
		}
		if !f(vf, m.vals[n]) {
			return
		}
	}
}

// VerifSetCount reports how many fields hold a value (for harness assertions).
func (m *VerifDynMessage) VerifSetCount() int { return len(m.vals) }

// ---- lists ----

type VerifDynList struct {
	protoreflect.List
	field    *VerifField
	items    []protoreflect.Value
	readOnly bool
}

func (l *VerifDynList) Len() int                     { return len(l.items) }
func (l *VerifDynList) IsValid() bool                { return l != nil && !l.readOnly }
func (l *VerifDynList) Get(i int) protoreflect.Value { return l.items[i] }
func (l *VerifDynList) Truncate(n int)               { l.items = l.items[:n] }
func (l *VerifDynList) mustWrite(v protoreflect.Value) {
	if l.readOnly {
		verifPanic("protoreflect: write to a read-only list (protobuf-go panics)")
	}
	if !v.IsValid() {
		verifPanic("protoreflect.List: invalid Value (protobuf-go panics converting it to the element type)")
	}
}
func (l *VerifDynList) Set(i int, v protoreflect.Value) { l.mustWrite(v); l.items[i] = v }
func (l *VerifDynList) Append(v protoreflect.Value)     { l.mustWrite(v); l.items = append(l.items, v) }
func (l *VerifDynList) NewElement() protoreflect.Value {
	if l.field.Kind() == protoreflect.MessageKind {
		if md, ok := l.field.Message().(*VerifMessage); ok {
			return protoreflect.ValueOfMessage(VerifNewDynMessage(md))
		}
		verifPanic("fakemsg: list of a non-fakedesc message type")
	}
	return verifZeroOf(l.field)
}
func (l *VerifDynList) AppendMutable() protoreflect.Value {
	if l.field.Kind() != protoreflect.MessageKind {
		verifPanic("protoreflect.List.AppendMutable on a scalar list (protobuf-go panics)")
	}
	v := l.NewElement()
	l.Append(v)
	return v
}

// ---- maps (string keys) ----

type VerifDynMap struct {
	protoreflect.Map
	field    *VerifField
	keys     []string
	vals     []protoreflect.Value
	readOnly bool
	// VerifOrder, when set, is the order in which Range visits the entries
	// (protobuf-go ranges over a Go map: any order); default insertion order
	VerifOrder []int
}

// VerifNewDynMap: a stand-alone map value for the map field fd.
func VerifNewDynMap(fd protoreflect.FieldDescriptor) *VerifDynMap {
	return &VerifDynMap{field: fd.(*VerifField)}
}

func (m *VerifDynMap) Len() int      { return len(m.keys) }
func (m *VerifDynMap) IsValid() bool { return m != nil && !m.readOnly }
func (m *VerifDynMap) index(k protoreflect.MapKey) int {
	ks := k.String()
	for i := range m.keys {
		if m.keys[i] == ks {
			return i
		}
	}
	return -1
}
func (m *VerifDynMap) Has(k protoreflect.MapKey) bool { return m.index(k) >= 0 }
func (m *VerifDynMap) Get(k protoreflect.MapKey) protoreflect.Value {
	if i := m.index(k); i >= 0 {
		return m.vals[i]
	}
	return protoreflect.Value{}
}
func (m *VerifDynMap) Set(k protoreflect.MapKey, v protoreflect.Value) {
	if m.readOnly {
		verifPanic("protoreflect: write to a read-only map (protobuf-go panics)")
	}
	if !v.IsValid() {
		verifPanic("protoreflect.Map.Set: invalid Value (protobuf-go panics converting it to the value type)")
	}
	if i := m.index(k); i >= 0 {
		m.vals[i] = v
		return
	}
	m.keys = append(m.keys, k.String())
	m.vals = append(m.vals, v)
}
func (m *VerifDynMap) Clear(k protoreflect.MapKey) {
	if i := m.index(k); i >= 0 {
		m.keys = append(m.keys[:i], m.keys[i+1:]...)
		m.vals = append(m.vals[:i], m.vals[i+1:]...)
	}
}
func (m *VerifDynMap) NewValue() protoreflect.Value {
	vf := m.field.MapValue().(*VerifField)
	if vf.Kind() == protoreflect.MessageKind {
		if md, ok := vf.Message().(*VerifMessage); ok {
			return protoreflect.ValueOfMessage(VerifNewDynMessage(md))
		}
		verifPanic("fakemsg: map of a non-fakedesc message type")
	}
	return verifZeroOf(vf)
}
func (m *VerifDynMap) Mutable(k protoreflect.MapKey) protoreflect.Value {
	if i := m.index(k); i >= 0 {
		return m.vals[i]
	}
	v := m.NewValue()
	m.Set(k, v)
	return v
}
func (m *VerifDynMap) Range(f func(protoreflect.MapKey, protoreflect.Value) bool) {
	if len(m.VerifOrder) == len(m.keys) {
		for _, i := range m.VerifOrder {
			if !f(protoreflect.ValueOfString(m.keys[i]).MapKey(), m.vals[i]) {
				return
			}
		}
		return
	}
	// insertion order (protobuf-go leaves the order undefined)
	for i := range m.keys {
		if !f(protoreflect.ValueOfString(m.keys[i]).MapKey(), m.vals[i]) {
			return
		}
	}
}
