#!/bin/bash
# tools/seed.sh <seed-id> <property> <worktree> <demo-test-relpath> <go test -run regex> "<needs>" [checks to run...]
# Confirms a seeded change (build, full suite, demo fails with / passes without), stores it under
# /verif/seeded/<seed-id>/, runs the given checks against it in /repo and restores /repo.
set -u
id="$1"; prop="$2"; wt="$3"; demo="$4"; run="$5"; needs="$6"; shift 6
export GOFLAGS=-mod=mod GOPROXY=off
# runs against a changed /repo must not replace the evidence of the unchanged tree
rm -rf /var/tmp/evidence.keep; cp -r /verif/evidence /var/tmp/evidence.keep
trap 'rm -rf /verif/evidence; mv /var/tmp/evidence.keep /verif/evidence' EXIT
out=/verif/seeded/$id; mkdir -p "$out"
cd "$wt" || exit 2
git diff -- . ':(exclude)*zz_demo_test.go' > "$out/patch.diff"
cp "$demo" "$out/$(basename "$demo")"
pkgdir=$(dirname "$demo")
log="$out/confirm.log"; : > "$log"
mv "$demo" /var/tmp/_demo_hold.go
( go build ./... && go test -count=1 ./... 2>&1 | grep -v "no test files" | grep -v "^ok" ) >> "$log" 2>&1
suite_ok=$([ -s "$log" ] && echo no || echo yes)
mv /var/tmp/_demo_hold.go "$demo"
go test -count=1 -run "$run" "./$pkgdir/" > /var/tmp/_with.log 2>&1; with=$?
git stash -q
go test -count=1 -run "$run" "./$pkgdir/" > /var/tmp/_without.log 2>&1; without=$?
git stash pop -q
echo "suite_ok=$suite_ok demo_with_change_exit=$with demo_without_change_exit=$without" | tee -a "$log"
results=""
if [ "$suite_ok" = yes ] && [ $with -ne 0 ] && [ $without -eq 0 ]; then
  if git -C /repo apply --check "$out/patch.diff" 2>/dev/null; then
    git -C /repo apply "$out/patch.diff"
    for c in "$@"; do
      timeout 1500 /verif/check $c quick > "$out/check-$c.log" 2>&1; rc=$?
      nv=$(grep -c '^VIOLATION' "$out/check-$c.log")
      echo "check $c exit=$rc violations=$nv" | tee -a "$log"
      results="$results $c:exit=$rc:violations=$nv"
    done
    git -C /repo checkout -- .
  else
    echo "patch does not apply to /repo HEAD" | tee -a "$log"
  fi
fi
python3 - "$id" "$prop" "$needs" "$suite_ok" "$with" "$without" "$results" "$demo" "$run" <<'PY'
import json,sys
id,prop,needs,suite_ok,w,wo,results,demo,run=sys.argv[1:10]
json.dump({"seed":id,"breaks_property":prop,"needs_to_manifest":needs,
 "confirmed":{"builds_and_full_suite_passes_with_change":suite_ok=="yes","demo_fails_with_change":w!="0","demo_passes_without_change":wo=="0"},
 "demo":{"file":demo.split('/')[-1],"package_dir":'/'.join(demo.split('/')[:-1]),"run":"go test -count=1 -run '%s' ./%s/"%(run,'/'.join(demo.split('/')[:-1]))},
 "what_i_ran":"tools/seed.sh: go build ./... && go test ./... in a scratch worktree with the change (demo moved aside); demo with change; demo after git stash; then git -C /repo apply patch.diff, ./check <id> quick, git -C /repo checkout -- .",
 "checks":[dict(zip(["check","exit","violations"],[x.split(':')[0],x.split(':')[1].split('=')[1],x.split(':')[2].split('=')[1]])) for x in results.split()]},
 open('/verif/seeded/%s/meta.json'%id,'w'),indent=1)
PY
git -C /repo status --short | head -3
