#!/usr/bin/env python3
"""Prints the markdown table of seeded changes (from /verif/seeded/*/meta.json)."""
import json,glob
def summ(cs):
    caught=[c['check'] for c in cs if c['exit']=='1' and int(c['violations'])>0]
    missed=[c['check'] for c in cs if c['exit']=='0']
    other=[c['check']+'(exit '+c['exit']+')' for c in cs if c['exit'] not in ('0','1')]
    out=[]
    if caught: out.append('caught: '+', '.join(caught))
    if missed+other: out.append('missed: '+', '.join(missed+other))
    return '; '.join(out) or '—'
print('| seed | breaks | what it needs to show | confirmed | first run | after strengthening |')
print('|---|---|---|---|---|---|')
for p in sorted(glob.glob('/verif/seeded/*/meta.json')):
    m=json.load(open(p))
    conf='yes' if all(m['confirmed'].values()) else 'NO'
    first=m.get('checks_first_run',m.get('checks',[]))
    now=m.get('checks',[]) if 'checks_first_run' in m else []
    after=summ(now) if now else 'unchanged'
    if m.get('check_extended_before_first_run'):
        first=None
    if m.get('superseded_by_fix'):
        after='no longer a breaking change after fix '+m['superseded_by_fix']+' (its demonstration passes on the fixed tree)'
    print('| '+' | '.join([m['seed'],m['breaks_property'],m['needs_to_manifest'].replace('|','/'),conf,(summ(first) if first is not None else 'not measured: the check was extended for this mechanism from the sub-agent report before the change was run'),(after if first is not None else summ(m.get('checks',[])))])+' |')
