#!/usr/bin/env python3
"""Regenerates MANIFEST.json from checks.json + manifest_meta.json (kept in sync by hand-run)."""
import json, os
root = os.path.dirname(os.path.dirname(os.path.abspath(__file__)))
checks = json.load(open(os.path.join(root, "checks.json")))["properties"]
meta = json.load(open(os.path.join(root, "manifest_meta.json")))
props = [json.loads(l) for l in open(os.path.join(root, "properties.jsonl"))]
out = {
    "version": 1,
    "setup_cmd": "cd engine && GOFLAGS=-mod=mod GOPROXY=off go build -o ../bin/gosx . && cd .. && ./bin/gosx version",
    "hooks": {
        "guard": "verif",
        "enable": "none needed: harnesses are injected with go/packages Overlay and `go test -overlay`; /repo is never written to",
        "baseline_off_cmd": meta["baseline_off_cmd"],
        "source_commits": [],
        "add_only": True,
    },
    "engines": [{
        "name": "gosx",
        "path": "engine/",
        "serves_properties": sorted(checks.keys()),
        "kind_free_text": "bounded symbolic executor for Go over golang.org/x/tools/go/ssa (built from /repo's working tree at run time) with an SMT back end (z3 5.1.0 via `z3-new -in`); native replay of every counterexample with `go test -overlay`",
    }],
    "checks": [],
    "not_applicable": [],
    "notes": meta.get("notes", ""),
}
for p in props:
    pid = p["id"]
    if pid in checks and pid in meta["checks"]:
        m = meta["checks"][pid]
        hs = checks[pid]["harnesses"]
        out["checks"].append({
            "property_id": pid,
            "quick_cmd": "./check %s quick" % pid,
            "thorough_cmd": "./check %s thorough" % pid,
            "evidence_file": "evidence/%s.json" % pid,
            "replay_cmd_template": "./check --replay {path}",
            "engine": "gosx",
            "level_claimed": {"category": "model_checking", "text": m["level_text"], "design_ref": m.get("design_ref", "DESIGN.md §4 " + pid)},
            "level_note": m["level_note"] + " Harnesses run: " + ", ".join(h["func"] for h in hs) + ".",
            "technique": m.get("technique", "bounded symbolic execution of the real Go code (go/ssa -> SMT-LIB2, z3); solver verdict per path; counterexamples replayed natively"),
        })
    else:
        out["not_applicable"].append({"property_id": pid, "reason": meta["not_applicable"].get(pid, "no harness registered yet in this revision; see DESIGN.md §4")})
json.dump(out, open(os.path.join(root, "MANIFEST.json"), "w"), indent=1)
print("checks:", [c["property_id"] for c in out["checks"]], "n/a:", len(out["not_applicable"]))
