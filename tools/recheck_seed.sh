#!/bin/bash
# tools/recheck_seed.sh <seed-id> <check> [<check>...]
# Re-runs the given checks (quick tier) against a stored seeded change: applies
# /verif/seeded/<id>/patch.diff to /repo, runs, restores /repo, and rewrites the
# "checks" list of meta.json (the confirmation part is left as recorded).
set -u
id="$1"; shift
dir=/verif/seeded/$id
export GOFLAGS=-mod=mod GOPROXY=off
# runs against a changed /repo must not replace the evidence of the unchanged tree
rm -rf /var/tmp/evidence.keep; cp -r /verif/evidence /var/tmp/evidence.keep
trap 'rm -rf /verif/evidence; mv /var/tmp/evidence.keep /verif/evidence' EXIT
if [ -n "$(git -C /repo status --short)" ]; then echo "/repo is not clean"; exit 2; fi
git -C /repo apply --check "$dir/patch.diff" || { echo "patch does not apply"; exit 2; }
git -C /repo apply "$dir/patch.diff"
results=""
for c in "$@"; do
  timeout 3000 /verif/check $c quick > "$dir/check-$c.log" 2>&1; rc=$?
  nv=$(grep -c '^VIOLATION' "$dir/check-$c.log")
  echo "$id: check $c exit=$rc violations=$nv"
  results="$results $c:$rc:$nv"
done
git -C /repo checkout -- .
python3 - "$id" "$results" <<'PY'
import json,sys
id,results=sys.argv[1:3]
p='/verif/seeded/%s/meta.json'%id
m=json.load(open(p))
if 'checks_first_run' not in m:
    m['checks_first_run']=[dict(c) for c in m.get('checks',[])]
old={c['check']:c for c in m.get('checks',[])}
for x in results.split():
    c,rc,nv=x.split(':')
    old[c]={"check":c,"exit":rc,"violations":nv}
m['checks']=[old[k] for k in sorted(old)]
json.dump(m,open(p,'w'),indent=1)
PY
