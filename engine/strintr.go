package main

import (
	"go/types"
	"reflect"
	"regexp"
	"strconv"
	"strings"

	"golang.org/x/tools/go/ssa"
)

func (c *Ctx) method(t types.Type, name string) *ssa.Function {
	ms := c.prog.MethodSets.MethodSet(t)
	for i := 0; i < ms.Len(); i++ {
		if ms.At(i).Obj().Name() == name {
			return c.prog.MethodValue(ms.At(i))
		}
	}
	return nil
}

func installStr(c *Ctx) {
	in := c.intrinsics
	in["errors.As"] = func(c *Ctx, a []Value) Value {
		err := a[0].(Iface)
		tgt := a[1].(Iface)
		T := tgt.t.(*types.Pointer).Elem()
		tp := tgt.v.(*Ptr)
		for depth := 0; depth < 10 && err.t != nil; depth++ {
			if types.IsInterface(T) {
				if types.Implements(err.t, T.Underlying().(*types.Interface)) {
					c.store(tp, err)
					return Bool(true)
				}
			} else if types.Identical(err.t, T) {
				c.store(tp, err.v)
				return Bool(true)
			}
			uw := c.method(err.t, "Unwrap")
			if uw == nil || uw.Signature.Results().Len() != 1 || !types.IsInterface(uw.Signature.Results().At(0).Type()) {
				break
			}
			if _, isSlice := uw.Signature.Results().At(0).Type().Underlying().(*types.Slice); isSlice {
				break
			}
			err = c.call(uw, []Value{err.v}).(Iface)
		}
		return Bool(false)
	}
	in["errors.Is"] = func(c *Ctx, a []Value) Value {
		err := a[0].(Iface)
		tgt := a[1].(Iface)
		for depth := 0; depth < 10 && err.t != nil; depth++ {
			if c.valEq(err, tgt).IsTrue() {
				return Bool(true)
			}
			uw := c.method(err.t, "Unwrap")
			if uw == nil || uw.Signature.Results().Len() != 1 {
				break
			}
			r := c.call(uw, []Value{err.v})
			ri, ok := r.(Iface)
			if !ok {
				break
			}
			err = ri
		}
		return Bool(false)
	}
	in["internal/bytealg.CountString"] = func(c *Ctx, a []Value) Value {
		s, b := a[0].(*Str), a[1].(*Term)
		n := BV(0, 64)
		for _, x := range s.b {
			n = BinBV("bvadd", n, Ite(Cmp("=", x, b), BV(1, 64), BV(0, 64)))
		}
		return n
	}
	in["internal/bytealg.IndexByteString"] = func(c *Ctx, a []Value) Value {
		s, b := a[0].(*Str), a[1].(*Term)
		r := BV(^uint64(0), 64)
		for k := len(s.b) - 1; k >= 0; k-- {
			r = Ite(Cmp("=", s.b[k], b), BV(uint64(k), 64), r)
		}
		return r
	}
	in["internal/bytealg.IndexString"] = func(c *Ctx, a []Value) Value {
		s, sub := a[0].(*Str), a[1].(*Str)
		r := BV(^uint64(0), 64)
		for k := len(s.b) - len(sub.b); k >= 0; k-- {
			eq := Bool(true)
			for j := range sub.b {
				eq = And(eq, Cmp("=", s.b[k+j], sub.b[j]))
			}
			r = Ite(eq, BV(uint64(k), 64), r)
		}
		return r
	}
	in["internal/stringslite.Index"] = in["internal/bytealg.IndexString"]
	in["strings.Index"] = in["internal/bytealg.IndexString"]
	in["strings.IndexByte"] = in["internal/bytealg.IndexByteString"]
	in["internal/stringslite.IndexByte"] = in["internal/bytealg.IndexByteString"]
	// strings.Builder: field 1 is buf []byte
	in["(*strings.Builder).copyCheck"] = func(c *Ctx, a []Value) Value { return nil }
	in["(*strings.Builder).String"] = func(c *Ctx, a []Value) Value {
		b := (*a[0].(*Ptr).slot).(*Struct)
		s := b.f[1].(Slice)
		out := &Str{}
		for k := 0; k < s.len; k++ {
			out.b = append(out.b, s.back.e[s.off+k].(*Term))
		}
		return out
	}
	in["(*strings.Builder).grow"] = func(c *Ctx, a []Value) Value { return nil }
	in["(*strings.Builder).Grow"] = func(c *Ctx, a []Value) Value { return nil }
	in["strings.Join"] = func(c *Ctx, a []Value) Value {
		s := a[0].(Slice)
		sep := a[1].(*Str)
		out := &Str{}
		for k := 0; k < s.len; k++ {
			if k > 0 {
				out.b = append(out.b, sep.b...)
			}
			out.b = append(out.b, s.back.e[s.off+k].(*Str).b...)
		}
		return out
	}
	in["strings.Repeat"] = func(c *Ctx, a []Value) Value {
		s := a[0].(*Str)
		n := c.concretize(a[1].(*Term), 64)
		out := &Str{}
		for k := 0; k < n; k++ {
			out.b = append(out.b, s.b...)
		}
		return out
	}
	// strings.Split with a concrete one-byte separator over a symbolic string:
	// branch per position on "is this byte the separator" (lengths stay concrete).
	in["strings.Split"] = func(c *Ctx, a []Value) Value {
		s, sep := a[0].(*Str), a[1].(*Str)
		if cs, ok := s.concrete(); ok {
			if csep, ok := sep.concrete(); ok {
				return fromNative(reflect.ValueOf(strings.Split(cs, csep)))
			}
		}
		if len(sep.b) != 1 || !sep.b[0].isC {
			c.bypass = true
			return c.call(c.curCallee, a)
		}
		arr := &Arr{}
		cur := &Str{}
		for _, b := range s.b {
			if c.branch(Cmp("=", b, sep.b[0])) {
				arr.e = append(arr.e, cur)
				cur = &Str{}
			} else {
				cur = &Str{b: append(append([]*Term{}, cur.b...), b)}
			}
		}
		arr.e = append(arr.e, cur)
		return Slice{back: arr, len: len(arr.e), cap: len(arr.e)}
	}
	// sort.Slice / sort.SliceStable (their real bodies swap through reflect):
	// insertion sort driven by the caller's less function. sort.Slice does not
	// promise an order among elements that compare equal, so each tie is a free
	// choice; SliceStable keeps the input order.
	sortSlice := func(stable bool) func(c *Ctx, a []Value) Value {
		return func(c *Ctx, a []Value) Value {
			ifc, ok := a[0].(Iface)
			if !ok {
				c.errf("sort.Slice: unexpected argument %T", a[0])
			}
			sl, ok := ifc.v.(Slice)
			if !ok {
				c.errf("sort.Slice: not a slice: %T", ifc.v)
			}
			less := func(i, j int) bool {
				r := c.invoke(a[1], []Value{BV(uint64(i), 64), BV(uint64(j), 64)}).(*Term)
				return c.branch(r)
			}
			for i := 1; i < sl.len; i++ {
				for j := i; j > 0; j-- {
					move := less(j, j-1)
					if !move && !stable && !less(j-1, j) {
						move = c.chooseFree(2) == 1
					}
					if !move {
						break
					}
					e := sl.back.e
					e[sl.off+j], e[sl.off+j-1] = e[sl.off+j-1], e[sl.off+j]
				}
			}
			return nil
		}
	}
	in["sort.Slice"] = sortSlice(false)
	in["sort.SliceStable"] = sortSlice(true)
	// regexp.MustCompile / Compile: an object that only remembers its pattern
	mkRegexp := func(c *Ctx, a []Value, withErr bool) Value {
		res := c.curCallee.Signature.Results().At(0).Type().(*types.Pointer)
		st := res.Elem().Underlying().(*types.Struct)
		sv := zero(res.Elem()).(*Struct)
		for i := 0; i < st.NumFields(); i++ {
			if st.Field(i).Name() == "expr" {
				sv.f[i] = a[0]
			}
		}
		var slot Value = sv
		ptr := &Ptr{slot: &slot}
		if withErr {
			return Tuple{ptr, Iface{}}
		}
		return ptr
	}
	in["regexp.MustCompile"] = func(c *Ctx, a []Value) Value { return mkRegexp(c, a, false) }
	in["regexp.Compile"] = func(c *Ctx, a []Value) Value { return mkRegexp(c, a, true) }
	// regexp on concrete pattern and concrete text: run natively (the compiled
	// program is not interpreted)
	in["(*regexp.Regexp).MatchString"] = func(c *Ctx, a []Value) Value {
		p, _ := a[0].(*Ptr)
		txt, ok := a[1].(*Str).concrete()
		if p == nil || !ok {
			c.errf("regexp.MatchString on a nil pattern or symbolic text")
		}
		st, _ := c.curCallee.Signature.Recv().Type().(*types.Pointer).Elem().Underlying().(*types.Struct)
		sv, _ := (*p.slot).(*Struct)
		for i := 0; st != nil && sv != nil && i < st.NumFields(); i++ {
			if st.Field(i).Name() == "expr" {
				if es, ok := sv.f[i].(*Str); ok {
					if pat, ok := es.concrete(); ok {
						re, err := regexp.Compile(pat)
						if err != nil {
							c.errf("regexp: %v", err)
						}
						return Bool(re.MatchString(txt))
					}
				}
			}
		}
		c.errf("regexp.MatchString: pattern not concrete")
		return nil
	}
	in["crypto/internal/boring/sig.StandardCrypto"] = func(c *Ctx, a []Value) Value { return nil }
	in["crypto/internal/boring/sig.BoringCrypto"] = func(c *Ctx, a []Value) Value { return nil }
	in["crypto/internal/boring/sig.FIPSOnly"] = func(c *Ctx, a []Value) Value { return nil }
	// crypto/sha1: the block function is assembly on this platform; run the
	// portable one from the same package instead
	in["crypto/sha1.block"] = func(c *Ctx, a []Value) Value {
		p := c.prog.ImportedPackage("crypto/sha1")
		if p == nil || p.Func("blockGeneric") == nil {
			c.errf("crypto/sha1.blockGeneric not found")
		}
		return c.call(p.Func("blockGeneric"), a)
	}
	// clock stub: the zero instant (no property looks at a time stamp taken by the code)
	in["time.Now"] = func(c *Ctx, a []Value) Value { return zero(c.curCallee.Signature.Results().At(0).Type()) }
	in["time.runtimeNano"] = func(c *Ctx, a []Value) Value { return BV(0, 64) } // monotonic clock stub (package init of time)
	in["internal/stringslite.Clone"] = func(c *Ctx, a []Value) Value { return a[0] }
	in["strings.Clone"] = func(c *Ctx, a []Value) Value { return a[0] }
	in["fmt.Sprintf"] = func(c *Ctx, a []Value) Value { return c.sprintf(a) }
	in["fmt.Sprint"] = func(c *Ctx, a []Value) Value { return c.intrinsics["fmt.verifSprint"](c, a) }
	in["fmt.Sprintln"] = func(c *Ctx, a []Value) Value { return opaqueStr() }
	in["fmt.Printf"] = func(c *Ctx, a []Value) Value { return Tuple{BV(0, 64), Iface{}} }
	in["fmt.Println"] = func(c *Ctx, a []Value) Value { return Tuple{BV(0, 64), Iface{}} }
	in["fmt.Print"] = func(c *Ctx, a []Value) Value { return Tuple{BV(0, 64), Iface{}} }
	writeTo := func(c *Ctx, w Iface, s *Str) Value {
		if w.t == nil {
			panic(&goPanic{what: "nil io.Writer", pos: c.cp()})
		}
		m := c.method(w.t, "Write")
		if m == nil {
			c.errf("Fprintf: no Write on %s", w.t)
		}
		arr := &Arr{e: make([]Value, len(s.b))}
		for k, b := range s.b {
			arr.e[k] = b
		}
		return c.call(m, []Value{w.v, Slice{back: arr, len: len(s.b), cap: len(s.b)}})
	}
	in["fmt.Fprintf"] = func(c *Ctx, a []Value) Value {
		return writeTo(c, a[0].(Iface), c.sprintf(a[1:]).(*Str))
	}
	// fmt.Sprint / Fprint: every operand as %v; a space between two operands
	// when neither is of string kind
	sprint := func(c *Ctx, args Slice) *Str {
		out := &Str{}
		prevString := true
		for k := 0; k < args.len; k++ {
			arg := args.back.e[args.off+k]
			iv, _ := arg.(Iface)
			_, isStr := iv.v.(*Str)
			if k > 0 && !isStr && !prevString {
				out.b = append(out.b, BV(' ', 8))
			}
			one := &Arr{e: []Value{arg}}
			out.b = append(out.b, c.sprintf([]Value{strConst("%v"), Slice{back: one, len: 1, cap: 1}}).(*Str).b...)
			prevString = isStr
		}
		return out
	}
	in["fmt.Fprint"] = func(c *Ctx, a []Value) Value { return writeTo(c, a[0].(Iface), sprint(c, a[1].(Slice))) }
	in["fmt.verifSprint"] = func(c *Ctx, a []Value) Value { return sprint(c, a[0].(Slice)) }
	in["fmt.Fprintln"] = func(c *Ctx, a []Value) Value { return writeTo(c, a[0].(Iface), opaqueStr()) }
	in["fmt.Errorf"] = func(c *Ctx, a []Value) Value {
		// keep %w chain: find first error arg
		args := a[1].(Slice)
		format := cstr(a[0])
		if strings.Contains(format, "%w") {
			for k := 0; k < args.len; k++ {
				if e, ok := args.back.e[args.off+k].(Iface); ok && e.t != nil && c.method(e.t, "Error") != nil {
					return e // approximation: wrapped error keeps identity, text opaque
				}
			}
		}
		return c.errorValue("opaque error")
	}
}

func (c *Ctx) sprintf(a []Value) Value {
	format := cstr(a[0])
	args := a[1].(Slice)
	out := &Str{}
	ai := 0
	for i := 0; i < len(format); i++ {
		ch := format[i]
		if ch != '%' {
			out.b = append(out.b, BV(uint64(ch), 8))
			continue
		}
		i++
		// flags/width
		j := i
		for j < len(format) && strings.ContainsRune("0123456789+-# .", rune(format[j])) {
			j++
		}
		spec := format[i:j]
		verb := format[j]
		i = j
		if verb == '%' {
			out.b = append(out.b, BV('%', 8))
			continue
		}
		var arg Value
		if ai < args.len {
			arg = args.back.e[args.off+ai]
		}
		ai++
		iv, _ := arg.(Iface)
		switch v := iv.v.(type) {
		case *Str:
			switch verb {
			case 's', 'v':
				if spec == "" {
					out.b = append(out.b, v.b...)
					continue
				}
				if w, err := strconv.Atoi(strings.TrimLeft(spec, "0")); err == nil && strings.Trim(spec, "0123456789") == "" {
					pad := byte(' ')
					if strings.HasPrefix(spec, "0") {
						pad = '0'
					}
					for k := len(v.b); k < w; k++ {
						out.b = append(out.b, BV(uint64(pad), 8))
					}
					out.b = append(out.b, v.b...)
					continue
				}
			case 'q':
				q := c.prog.ImportedPackage("strconv").Func("Quote")
				out.b = append(out.b, c.call(q, []Value{v}).(*Str).b...)
				continue
			}
		case *Term:
			if v.width > 0 && isInteger(iv.t) && (verb == 'd' || verb == 'v') && strings.Trim(spec, "0123456789") == "" {
				_, signed := intWidth(iv.t)
				num := c.numeral(v, signed)
				width, _ := strconv.Atoi(strings.TrimLeft(spec, "0"))
				zero := strings.HasPrefix(spec, "0")
				digits := num.b
				neg := len(digits) > 0 && digits[0].isC && digits[0].cval == '-'
				if zero && neg {
					out.b = append(out.b, digits[0])
					digits = digits[1:]
					width--
				}
				for k := len(digits); k < width; k++ {
					if zero {
						out.b = append(out.b, BV('0', 8))
					} else {
						out.b = append(out.b, BV(' ', 8))
					}
				}
				out.b = append(out.b, digits...)
				continue
			}
			if v.width == 32 && verb == 'c' && spec == "" {
				out.b = append(out.b, c.runeToStr(v, iv.t).b...)
				continue
			}
			if v.width == 0 && (verb == 't' || verb == 'v') && v.isC {
				out.b = append(out.b, strConst(strconv.FormatBool(v.cval == 1)).b...)
				continue
			}
		}
		// error values: their Error() text
		if iv.t != nil && (verb == 's' || verb == 'v' || verb == 'w') {
			if m := c.method(iv.t, "Error"); m != nil && m.Signature.Params().Len() == 0 && m.Signature.Results().Len() == 1 {
				if p, isPtr := iv.v.(*Ptr); !isPtr || p != nil {
					r := c.call(m, []Value{iv.v})
					if rs, ok := r.(*Str); ok {
						out.b = append(out.b, rs.b...)
						continue
					}
				}
			}
		}
		// Stringer?
		if iv.t != nil && (verb == 's' || verb == 'v') {
			if m := c.method(iv.t, "String"); m != nil && m.Signature.Params().Len() == 0 {
				r := c.call(m, []Value{iv.v})
				if rs, ok := r.(*Str); ok {
					out.b = append(out.b, rs.b...)
					continue
				}
			}
		}
		out.b = append(out.b, opaqueStr().b...)
	}
	return out
}
