package main

import (
	"fmt"
)

type thread struct {
	id       int
	done     bool
	resume   chan struct{}
	vc       []int
	blocked  *Value // mutex slot waiting on
	blockedR bool   // waiting for a read lock (readers do not block it)
}

type access struct {
	wTid, wClk int
	hasW       bool
	reads      map[int]int
}

type mutexState struct {
	held    bool
	owner   int
	vc      []int // clock released by the last Unlock (writers)
	readers int   // RWMutex: read locks currently held
	rvc     []int // RWMutex: join of the clocks released by RUnlock since the last Lock
}

type schedState struct {
	threads  []*thread
	cur      int
	preempts int
	acc      map[interface{}]*access
	mu       map[*Value]*mutexState
	err      interface{}
}

// Preemption policy. Races are detected with vector clocks on every shared
// access of whatever schedule runs; for programs that turn out race free it is
// enough to interleave at synchronisation operations (Lock/Unlock, thread
// start/end), which is what the explorer does by default. With
// engine.preempt=1 every shared access is a preemption point as well.
var defaultMaxPreempt = 2

func (c *Ctx) sch() *schedState {
	if c.sched == nil {
		c.sched = &schedState{acc: map[interface{}]*access{}, mu: map[*Value]*mutexState{}}
		c.sched.threads = []*thread{{id: 0, resume: make(chan struct{}), vc: []int{0}}}
	}
	return c.sched
}

func (s *schedState) me() *thread { return s.threads[s.cur] }

func vcMax(a, b []int) []int {
	for len(a) < len(b) {
		a = append(a, 0)
	}
	for i := range b {
		if b[i] > a[i] {
			a[i] = b[i]
		}
	}
	return a
}

func (t *thread) clk(i int) int {
	if i < len(t.vc) {
		return t.vc[i]
	}
	return 0
}

func (c *Ctx) spawn(cl *Closure) {
	s := c.sch()
	p := s.me()
	t := &thread{id: len(s.threads), resume: make(chan struct{})}
	t.vc = append([]int{}, p.vc...)
	for len(t.vc) <= t.id {
		t.vc = append(t.vc, 0)
	}
	t.vc[t.id] = 1
	p.vc[p.id]++
	s.threads = append(s.threads, t)
	go func() {
		<-t.resume
		defer func() {
			if r := recover(); r != nil {
				if _, killed := r.(threadKilled); killed {
					return
				}
				s.err = r
				t.done = true
				s.cur = 0
				s.threads[0].resume <- struct{}{}
				return
			}
		}()
		c.invoke(cl, nil)
		t.done = true
		c.pickNext(true)
	}()
}

type threadKilled struct{}

func (c *Ctx) runnable() []int {
	s := c.sched
	var r []int
	for _, t := range s.threads {
		if t.done || t.id == 0 {
			continue
		}
		if t.blocked != nil {
			if m := s.mu[t.blocked]; m != nil && (m.held || (!t.blockedR && m.readers > 0)) {
				continue
			}
		}
		r = append(r, t.id)
	}
	return r
}

// pickNext hands the baton on; final=true when the current thread has finished.
func (c *Ctx) pickNext(final bool) {
	s := c.sched
	self := s.me()
	run := c.runnable()
	if len(run) == 0 {
		all := true
		for _, t := range s.threads[1:] {
			if !t.done {
				all = false
			}
		}
		if !all {
			c.recordViolation("deadlock", "no runnable thread", Bool(true), "")
		}
		s.cur = 0
		if self.id != 0 {
			s.threads[0].resume <- struct{}{}
			if !final {
				<-self.resume
			}
		}
		return
	}
	gs := make([]*Term, len(run))
	for i := range gs {
		gs[i] = Bool(true)
	}
	k := run[c.chooseFree(len(run))]
	if k == self.id {
		return
	}
	s.cur = k
	s.threads[k].resume <- struct{}{}
	if !final {
		<-self.resume
		if s.err != nil && self.id != 0 {
			panic(threadKilled{})
		}
	}
}

// chooseFree is a choice point with n always-feasible alternatives
func (c *Ctx) chooseFree(n int) int {
	if n == 1 {
		return 0
	}
	i := len(c.decis)
	if i < len(c.prefix) {
		d := c.prefix[i]
		c.decis = append(c.decis, d)
		return d
	}
	for k := 1; k < n; k++ {
		c.pending = append(c.pending, append(append([]int{}, c.decis...), k))
	}
	c.decis = append(c.decis, 0)
	return 0
}

// visible is called before a shared-memory operation by a spawned thread
func (c *Ctx) visible(loc interface{}, write bool, what string) {
	s := c.sched
	if s == nil || len(s.threads) == 1 || c.noTrack > 0 {
		return
	}
	self := s.me()
	if self.id != 0 {
		// preemption point
		others := 0
		for _, k := range c.runnable() {
			if k != self.id {
				others++
			}
		}
		if c.preemptEverywhere && others > 0 && s.preempts < c.maxPreempt {
			if c.chooseFree(2) == 1 {
				s.preempts++
				// switch to some other runnable thread
				var cand []int
				for _, k := range c.runnable() {
					if k != self.id {
						cand = append(cand, k)
					}
				}
				k := cand[c.chooseFree(len(cand))]
				s.cur = k
				s.threads[k].resume <- struct{}{}
				<-self.resume
				if s.err != nil {
					panic(threadKilled{})
				}
			}
		}
	}
	self = s.me()
	self.vc[self.id]++
	a := s.acc[loc]
	if a == nil {
		a = &access{reads: map[int]int{}}
		s.acc[loc] = a
	}
	if a.hasW && a.wTid != self.id && a.wClk > self.clk(a.wTid) {
		c.race(what, a.wTid, self.id, "write/"+map[bool]string{true: "write", false: "read"}[write])
	}
	if write {
		for tid, clk := range a.reads {
			if tid != self.id && clk > self.clk(tid) {
				c.race(what, tid, self.id, "read/write")
			}
		}
		a.hasW, a.wTid, a.wClk = true, self.id, self.vc[self.id]
	} else {
		a.reads[self.id] = self.vc[self.id]
	}
}

func (c *Ctx) race(what string, t1, t2 int, kind string) {
	c.reportViolation("race", fmt.Sprintf("data race (%s) on %s between thread %d and thread %d", kind, what, t1, t2), Bool(true))
}

func (c *Ctx) join() {
	s := c.sch()
	if len(s.threads) == 1 {
		return
	}
	run := c.runnable()
	if len(run) > 0 {
		k := run[c.chooseFree(len(run))]
		s.cur = k
		s.threads[k].resume <- struct{}{}
		<-s.threads[0].resume
	}
	if s.err != nil {
		e := s.err
		panic(e)
	}
	for _, t := range s.threads[1:] {
		s.threads[0].vc = vcMax(s.threads[0].vc, t.vc)
	}
}

func (c *Ctx) lock(m *Value) {
	s := c.sch()
	c.syncPoint()
	for {
		st := s.mu[m]
		if st == nil {
			st = &mutexState{}
			s.mu[m] = st
		}
		if !st.held && st.readers == 0 {
			st.held, st.owner = true, s.cur
			me := s.me()
			// a writer is ordered after the previous writer and after every reader
			me.vc = vcMax(vcMax(me.vc, st.vc), st.rvc)
			st.rvc = nil
			me.blocked = nil
			return
		}
		me := s.me()
		me.blocked, me.blockedR = m, false
		c.pickNext(false)
	}
}

// rlock / runlock: sync.RWMutex read side. Readers exclude writers, not each
// other; a reader is ordered after the last writer's Unlock only (two readers
// are concurrent, so what they both touch is checked for races).
func (c *Ctx) rlock(m *Value) {
	s := c.sch()
	c.syncPoint()
	for {
		st := s.mu[m]
		if st == nil {
			st = &mutexState{}
			s.mu[m] = st
		}
		if !st.held {
			st.readers++
			me := s.me()
			me.vc = vcMax(me.vc, st.vc)
			me.blocked = nil
			return
		}
		me := s.me()
		me.blocked, me.blockedR = m, true
		c.pickNext(false)
	}
}

func (c *Ctx) runlock(m *Value) {
	s := c.sch()
	st := s.mu[m]
	if st == nil || st.readers == 0 {
		panic(&goPanic{what: "sync: RUnlock of unlocked RWMutex", pos: c.cp()})
	}
	me := s.me()
	st.readers--
	st.rvc = vcMax(append([]int{}, me.vc...), st.rvc)
	me.vc[me.id]++
	c.syncPoint()
}

func (c *Ctx) unlock(m *Value) {
	s := c.sch()
	st := s.mu[m]
	if st == nil || !st.held {
		panic(&goPanic{what: "sync: unlock of unlocked mutex", pos: c.cp()})
	}
	me := s.me()
	st.held = false
	st.vc = append([]int{}, me.vc...)
	me.vc[me.id]++
	c.syncPoint()
}

// syncPoint: a spawned thread may be preempted here (bounded).
func (c *Ctx) syncPoint() {
	s := c.sched
	if s == nil || len(s.threads) == 1 {
		return
	}
	self := s.me()
	if self.id == 0 || s.preempts >= c.maxPreempt {
		return
	}
	var cand []int
	for _, k := range c.runnable() {
		if k != self.id {
			cand = append(cand, k)
		}
	}
	if len(cand) == 0 {
		return
	}
	if c.chooseFree(2) == 0 {
		return
	}
	s.preempts++
	k := cand[c.chooseFree(len(cand))]
	s.cur = k
	s.threads[k].resume <- struct{}{}
	<-self.resume
	if s.err != nil {
		panic(threadKilled{})
	}
}

// schedCleanup releases the goroutines of logical threads that are still parked.
func (c *Ctx) schedCleanup() {
	s := c.sched
	if s == nil {
		return
	}
	s.err = threadKilled{}
	for _, t := range s.threads[1:] {
		if !t.done {
			t.done = true
			select {
			case t.resume <- struct{}{}:
			default:
			}
		}
	}
	c.sched = nil
}
