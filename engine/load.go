package main

import (
	"fmt"
	"os"
	"path/filepath"
	"sort"
	"strings"
	"time"

	"golang.org/x/tools/go/packages"
	"golang.org/x/tools/go/ssa"
	"golang.org/x/tools/go/ssa/ssautil"
)

var repoDir = envOr("VERIF_REPO", "/repo")
var verifDir = envOr("VERIF_DIR", "/verif")

const modulePath = "github.com/pentops/j5"

func envOr(k, d string) string {
	if v := os.Getenv(k); v != "" {
		return v
	}
	return d
}

// harnessDirs lists every directory under <verif>/harness that holds .go files,
// as paths relative to the repo root.
func harnessDirs() []string {
	var out []string
	root := filepath.Join(verifDir, "harness")
	filepath.Walk(root, func(p string, info os.FileInfo, err error) error {
		if err != nil || info.IsDir() || !strings.HasSuffix(p, ".go") {
			return nil
		}
		rel, _ := filepath.Rel(root, filepath.Dir(p))
		for _, o := range out {
			if o == rel {
				return nil
			}
		}
		out = append(out, rel)
		return nil
	})
	sort.Strings(out)
	return out
}

func packageNameOf(dir string) string {
	ents, _ := os.ReadDir(dir)
	for _, e := range ents {
		if !strings.HasSuffix(e.Name(), ".go") || strings.HasSuffix(e.Name(), "_test.go") {
			continue
		}
		b, err := os.ReadFile(filepath.Join(dir, e.Name()))
		if err != nil {
			continue
		}
		for _, l := range strings.Split(string(b), "\n") {
			l = strings.TrimSpace(l)
			if strings.HasPrefix(l, "package ") {
				return strings.Fields(l)[1]
			}
		}
	}
	return ""
}

// buildOverlay maps virtual files inside the repo to harness sources; the
// repository itself is never written to.
func buildOverlay(forNative bool, testFor map[string]string) (map[string][]byte, error) {
	over := map[string][]byte{}
	for _, rel := range harnessDirs() {
		src := filepath.Join(verifDir, "harness", rel)
		dst := filepath.Join(repoDir, rel)
		if _, err := os.Stat(dst); err != nil {
			return nil, fmt.Errorf("harness dir %s has no counterpart in the repository", rel)
		}
		ents, _ := os.ReadDir(src)
		pkgName := ""
		for _, e := range ents {
			if !strings.HasSuffix(e.Name(), ".go") {
				continue
			}
			b, err := os.ReadFile(filepath.Join(src, e.Name()))
			if err != nil {
				return nil, err
			}
			over[filepath.Join(dst, "zz_verif_"+e.Name())] = b
			if pkgName == "" {
				for _, l := range strings.Split(string(b), "\n") {
					if strings.HasPrefix(l, "package ") {
						pkgName = strings.Fields(l)[1]
						break
					}
				}
			}
		}
		if pkgName == "" {
			pkgName = packageNameOf(dst)
		}
		over[filepath.Join(dst, "zz_verif_support.go")] = []byte(strings.ReplaceAll(supportTemplate, "PKGNAME", pkgName))
		if fn, ok := testFor[rel]; ok && forNative {
			t := strings.ReplaceAll(testTemplate, "PKGNAME", pkgName)
			t = strings.ReplaceAll(t, "HARNESSFN", fn)
			over[filepath.Join(dst, "zz_verif_replay_test.go")] = []byte(t)
		}
	}
	return over, nil
}

type Program struct {
	prog  *ssa.Program
	pkgs  map[string]*ssa.Package // by import path
	load  time.Duration
	hpkgs []string
}

func loadProgram(rels []string) (*Program, error) {
	t0 := time.Now()
	over, err := buildOverlay(false, nil)
	if err != nil {
		return nil, err
	}
	var pats []string
	for _, r := range rels {
		pats = append(pats, modulePath+"/"+r)
	}
	cfg := &packages.Config{Mode: packages.LoadAllSyntax, Dir: repoDir, Overlay: over,
		Env: append(os.Environ(), "GOFLAGS=-mod=mod", "GOPROXY=off")}
	pkgs, err := packages.Load(cfg, pats...)
	if err != nil {
		return nil, err
	}
	nerr := 0
	packages.Visit(pkgs, nil, func(p *packages.Package) {
		for _, e := range p.Errors {
			if nerr < 20 {
				fmt.Fprintln(os.Stderr, "load error:", e)
			}
			nerr++
		}
	})
	if nerr > 0 {
		return nil, fmt.Errorf("%d package load errors (the repository or a harness does not type-check)", nerr)
	}
	prog, spkgs := ssautil.AllPackages(pkgs, ssa.InstantiateGenerics)
	prog.Build()
	p := &Program{prog: prog, pkgs: map[string]*ssa.Package{}, load: time.Since(t0)}
	for _, sp := range spkgs {
		if sp != nil {
			p.pkgs[sp.Pkg.Path()] = sp
		}
	}
	for _, rel := range harnessDirs() {
		p.hpkgs = append(p.hpkgs, modulePath+"/"+rel)
	}
	return p, nil
}
