package main

import (
	"crypto/sha1"
	"encoding/json"
	"fmt"
	"go/constant"
	"os"
	"os/exec"
	"path/filepath"
	"sort"
	"strconv"
	"strings"
	"time"

	"golang.org/x/tools/go/ssa"
)

type TierSpec struct {
	Params   map[string]int `json:"params,omitempty"`
	MaxPaths int            `json:"max_paths,omitempty"`
	TimeoutS int            `json:"timeout_s,omitempty"`
	MaxSteps int            `json:"max_steps,omitempty"`
	Skip     bool           `json:"skip,omitempty"`
}

type HarnessCfg struct {
	Pkg        string    `json:"pkg"`
	Func       string    `json:"func"`
	What       string    `json:"what"`
	Bound      string    `json:"bound,omitempty"`
	Cuts       []string  `json:"cuts,omitempty"`
	TermBudget int       `json:"term_budget,omitempty"`
	Quick      *TierSpec `json:"quick,omitempty"`
	Thorough   *TierSpec `json:"thorough,omitempty"`
	NoReplay   bool      `json:"no_replay,omitempty"`
	Race       bool      `json:"race,omitempty"`
	Repeat     int       `json:"native_repeat,omitempty"` // native replay repeats each vector (Go map order differs per run)
}

type PropertyCfg struct {
	Harnesses   []HarnessCfg `json:"harnesses"`
	Assumptions []string     `json:"assumptions"`
	Outside     []string     `json:"outside"`
}

type ChecksFile struct {
	Properties map[string]*PropertyCfg `json:"properties"`
}

type HarnessReport struct {
	Harness       string         `json:"harness"`
	What          string         `json:"what"`
	Bound         string         `json:"bound,omitempty"`
	Params        map[string]int `json:"params,omitempty"`
	Cuts          []string       `json:"cuts,omitempty"`
	Paths         int            `json:"paths"`
	Completed     int            `json:"paths_completed"`
	Aborted       int            `json:"paths_infeasible_or_assumed_away"`
	AssumeDrops   int            `json:"paths_dropped_by_assume"`
	Inconclusive  int            `json:"paths_inconclusive"`
	Truncated     bool           `json:"truncated"`
	ChoicePoints  int            `json:"choice_points"`
	MaxDepth      int            `json:"max_decision_depth"`
	Asserts       int            `json:"explicit_assertions_discharged"`
	Implicit      int            `json:"implicit_runtime_checks_discharged"`
	Queries       int            `json:"solver_queries"`
	Sat           int            `json:"sat"`
	Unsat         int            `json:"unsat"`
	Unknown       int            `json:"unknown"`
	SolverS       float64        `json:"solver_s_summed_over_workers"`
	MaxQueryS     float64        `json:"slowest_query_s"`
	WallS         float64        `json:"wall_s"`
	Reach         map[string]int `json:"assert_label_reach_counts"`
	Functions     []FuncInfo     `json:"functions_encoded"`
	OtherFuncs    int            `json:"stdlib_and_dependency_functions_interpreted"`
	Violations    []string       `json:"violations,omitempty"`
	KnownFindings []string       `json:"known_findings,omitempty"`
	NativeAgree   int            `json:"sample_paths_replayed_natively_and_agreeing"`
	Incomplete    []string       `json:"incomplete,omitempty"`
}

func loadChecks() (*ChecksFile, error) {
	b, err := os.ReadFile(filepath.Join(verifDir, "checks.json"))
	if err != nil {
		return nil, err
	}
	var cf ChecksFile
	if err := json.Unmarshal(b, &cf); err != nil {
		return nil, fmt.Errorf("checks.json: %v", err)
	}
	return &cf, nil
}

func loadKnown() ([]*KnownFinding, error) {
	b, err := os.ReadFile(filepath.Join(verifDir, "known_findings.json"))
	if err != nil {
		if os.IsNotExist(err) {
			return nil, nil
		}
		return nil, err
	}
	var f struct {
		Findings []*KnownFinding `json:"findings"`
	}
	if err := json.Unmarshal(b, &f); err != nil {
		return nil, fmt.Errorf("known_findings.json: %v", err)
	}
	for _, k := range f.Findings {
		k.compile()
	}
	return f.Findings, nil
}

// staticLabels collects the constant labels of verifAssert calls reachable
// from fn through functions defined in harness files.
func staticLabels(prog *ssa.Program, fn *ssa.Function) []string {
	seen := map[*ssa.Function]bool{}
	labels := map[string]bool{}
	var visit func(f *ssa.Function)
	visit = func(f *ssa.Function) {
		if f == nil || seen[f] || f.Blocks == nil {
			return
		}
		seen[f] = true
		if !strings.Contains(prog.Fset.Position(f.Pos()).Filename, "zz_verif_") {
			return
		}
		for _, b := range f.Blocks {
			for _, in := range b.Instrs {
				var cc *ssa.CallCommon
				switch x := in.(type) {
				case *ssa.Call:
					cc = &x.Call
				case *ssa.Defer:
					cc = &x.Call
				case *ssa.MakeClosure:
					visit(x.Fn.(*ssa.Function))
				}
				if cc == nil {
					continue
				}
				if callee := cc.StaticCallee(); callee != nil {
					if callee.Name() == "verifAssert" && len(cc.Args) == 2 {
						if k, ok := cc.Args[1].(*ssa.Const); ok && k.Value != nil {
							labels[constant.StringVal(k.Value)] = true
						}
					}
					visit(callee)
				}
			}
		}
		for _, af := range f.AnonFuncs {
			visit(af)
		}
	}
	visit(fn)
	var out []string
	for l := range labels {
		out = append(out, l)
	}
	sort.Strings(out)
	return out
}

func solverVersion(bin string) string {
	out, err := exec.Command(bin, "--version").CombinedOutput()
	if err != nil {
		return bin + ": " + err.Error()
	}
	return strings.TrimSpace(strings.Split(string(out), "\n")[0])
}

func runCheck(prop, tier string, only string) int {
	t0 := time.Now()
	seed, _ := strconv.Atoi(os.Getenv("VERIF_SEED"))
	cf, err := loadChecks()
	if err != nil {
		fmt.Fprintln(os.Stderr, "ERROR:", err)
		return 2
	}
	pc := cf.Properties[prop]
	if pc == nil {
		fmt.Fprintf(os.Stderr, "ERROR: property %s has no registered harnesses\n", prop)
		return 2
	}
	known, err := loadKnown()
	if err != nil {
		fmt.Fprintln(os.Stderr, "ERROR:", err)
		return 2
	}
	relSet := map[string]bool{}
	var rels []string
	for _, h := range pc.Harnesses {
		if !relSet[h.Pkg] {
			relSet[h.Pkg] = true
			rels = append(rels, h.Pkg)
		}
	}
	P, err := loadProgram(rels)
	if err != nil {
		fmt.Fprintln(os.Stderr, "ERROR: loading the repository with harness overlays failed:", err)
		return 2
	}
	fmt.Printf("gosx: %s tier=%s: loaded %d SSA packages from %s in %.1fs\n", prop, tier, len(P.pkgs), repoDir, P.load.Seconds())

	exit := 0
	bump := func(code int) {
		if code == 1 || (code == 2 && exit == 0) {
			exit = code
		}
	}
	var reports []*HarnessReport
	var samples []interface{}
	totalStates, totalTrans, totalValidated, totalViol := 0, 0, 0, 0
	printedKF := map[string]bool{}
	for _, h := range pc.Harnesses {
		if only != "" && only != h.Func {
			continue
		}
		ts := h.Quick
		if tier == "thorough" && h.Thorough != nil {
			ts = h.Thorough
		}
		if ts == nil {
			ts = &TierSpec{}
		}
		if ts.Skip {
			continue
		}
		sp := P.pkgs[modulePath+"/"+h.Pkg]
		if sp == nil {
			fmt.Fprintf(os.Stderr, "ERROR: package %s not loaded\n", h.Pkg)
			return 2
		}
		fn := sp.Func(h.Func)
		if fn == nil {
			fmt.Fprintf(os.Stderr, "ERROR: harness %s.%s not found\n", h.Pkg, h.Func)
			return 2
		}
		spec := HarnessSpec{Pkg: h.Pkg, Func: h.Func, Params: ts.Params, MaxPaths: ts.MaxPaths, TimeoutS: ts.TimeoutS, MaxSteps: ts.MaxSteps, TermBudget: h.TermBudget}
		ex := &Explorer{prog: P.prog, fn: fn, spec: spec, hpkgs: P.hpkgs, kfOpen: map[string]*KnownFinding{}}
		for _, k := range known {
			if k.Property == prop && k.Status == "open" && (k.Harness == "" || k.Harness == h.Func) {
				ex.kfOpen[k.ID] = k
			}
		}
		cuts := h.Cuts
		ex.install = func(c *Ctx) { installAll(c, P.hpkgs, cuts) }
		ex.Run()

		rep := &HarnessReport{Harness: h.Pkg + "." + h.Func, What: h.What, Bound: h.Bound, Params: ts.Params, Cuts: h.Cuts,
			Paths: ex.Paths, Completed: ex.Completed, Aborted: ex.Aborted, AssumeDrops: ex.AssumeDrops, Inconclusive: ex.Inconclusive,
			Truncated: ex.truncated, ChoicePoints: ex.Choice, MaxDepth: ex.maxDepth, Asserts: ex.Asserts, Implicit: ex.Implicit,
			Queries: ex.Queries, Sat: ex.Sat, Unsat: ex.Unsat, Unknown: ex.Unknown, SolverS: ex.SolverTime.Seconds(),
			MaxQueryS: ex.MaxQuery.Seconds(), WallS: ex.Wall.Seconds(), Reach: ex.reach}
		rep.Functions, rep.OtherFuncs = ex.encodedFunctions(repoDir + "/")
		reports = append(reports, rep)
		totalStates += ex.Paths
		totalTrans += ex.Choice + ex.Queries

		fmt.Printf("  %-34s paths=%d (completed %d, infeasible/assumed %d, inconclusive %d) asserts=%d implicit=%d queries=%d solver=%.1fs wall=%.1fs\n",
			h.Func, ex.Paths, ex.Completed, ex.Aborted, ex.Inconclusive, ex.Asserts, ex.Implicit, ex.Queries, ex.SolverTime.Seconds(), ex.Wall.Seconds())

		if len(ex.engineErrs) > 0 {
			for _, e := range ex.engineErrs {
				fmt.Printf("ENGINE-ERROR %s: %s\n", h.Func, e)
				rep.Incomplete = append(rep.Incomplete, "engine error: "+firstLine(e))
			}
			bump(2)
		}
		if ex.truncated {
			fmt.Printf("INCOMPLETE %s: exploration truncated (%s); the bound was not covered\n", h.Func, ex.why)
			rep.Incomplete = append(rep.Incomplete, "truncated: "+ex.why)
			bump(2)
		}
		inc := dedupe(ex.incomplete)
		for i, s := range inc {
			if i < 10 {
				fmt.Printf("INCOMPLETE %s: %s\n", h.Func, s)
			}
			rep.Incomplete = append(rep.Incomplete, s)
		}
		if len(inc) > 0 {
			bump(2)
		}
		// vacuity guards
		if ex.Completed == 0 && len(ex.viols) == 0 && len(ex.engineErrs) == 0 {
			fmt.Printf("INCOMPLETE %s: VACUOUS — no path reached the end of the harness\n", h.Func)
			rep.Incomplete = append(rep.Incomplete, "vacuous: no completed path")
			bump(2)
		}
		if len(ex.engineErrs) == 0 && !ex.truncated {
			for _, l := range staticLabels(P.prog, fn) {
				if ex.reach[l] == 0 {
					fmt.Printf("INCOMPLETE %s: VACUOUS — assertion %q was never reached\n", h.Func, l)
					rep.Incomplete = append(rep.Incomplete, "vacuous: assertion never reached: "+l)
					bump(2)
				}
			}
		}

		// violations
		var fresh []*violAgg
		for _, a := range ex.sortedViolations() {
			v := a.First
			if v.Known != "" {
				k := ex.kfOpen[v.Known]
				line := fmt.Sprintf("KNOWN-FINDING: property=%s %s [%s; harness %s, %s %q at %s, %d path(s)]", prop, k.What, k.ID, h.Func, v.Kind, v.Label, relPos(v.Pos), a.Count)
				if !printedKF[k.ID] {
					printedKF[k.ID] = true
					fmt.Println(line)
				}
				rep.KnownFindings = append(rep.KnownFindings, line)
				continue
			}
			fresh = append(fresh, a)
		}
		if len(fresh) > 0 {
			rf := &ReplayFile{Property: prop, Harness: h.Pkg + "." + h.Func, Pkg: h.Pkg, Func: h.Func, Params: ts.Params, Race: h.Race, Repeat: h.Repeat}
			for _, a := range fresh {
				rf.Vectors = append(rf.Vectors, a.First.Vector)
				rf.Expect = append(rf.Expect, a.First.Kind+" "+a.First.Label)
			}
			var res []string
			if h.NoReplay {
				res = make([]string, len(fresh))
				for i := range res {
					res[i] = "schedule-trace"
				}
			} else {
				var rerr error
				var text string
				res, text, rerr = nativeReplay(rf, 120*time.Second)
				if rerr != nil {
					fmt.Printf("INCOMPLETE %s: %v\n", h.Func, rerr)
					_ = text
				}
			}
			// a vector that does not reproduce: try the other input vectors that
			// violated the same assertion before calling it unconfirmed
			if !h.NoReplay {
				for i, a := range fresh {
					if reproduced(res[i]) || len(a.Alts) == 0 {
						continue
					}
					rf2 := &ReplayFile{Property: prop, Harness: rf.Harness, Pkg: h.Pkg, Func: h.Func, Params: ts.Params, Race: h.Race, Repeat: h.Repeat}
					for _, alt := range a.Alts {
						rf2.Vectors = append(rf2.Vectors, alt.Vector)
						rf2.Expect = append(rf2.Expect, alt.Kind+" "+alt.Label)
					}
					res2, _, rerr := nativeReplay(rf2, 120*time.Second)
					if rerr != nil {
						continue
					}
					for k, alt := range a.Alts {
						if k < len(res2) && reproduced(res2[k]) {
							a.First = alt
							res[i] = res2[k]
							break
						}
					}
				}
			}
			for i, a := range fresh {
				v := a.First
				desc := fmt.Sprintf("%s %q at %s (%d path(s)); inputs %s", v.Kind, v.Label, relPos(v.Pos), a.Count, vecString(v.Vector))
				if h.NoReplay || reproduced(res[i]) {
					v.Replayed = res[i]
					one := &ReplayFile{Property: prop, Harness: rf.Harness, Pkg: h.Pkg, Func: h.Func, Params: ts.Params, Race: h.Race, Repeat: h.Repeat,
						Vectors: [][]NdVal{v.Vector}, Expect: []string{v.Kind + " " + v.Label},
						Note: "engine: " + desc + "; native outcome: " + res[i] + "; decisions " + fmt.Sprint(v.Prefix)}
					path := writeReplay(prop, h.Func, one)
					fmt.Printf("VIOLATION property=%s replay=%s\n", prop, path)
					fmt.Printf("  %s: %s\n  native replay: %s\n", h.Func, desc, res[i])
					rep.Violations = append(rep.Violations, desc+" => "+res[i])
					totalViol++
					bump(1)
				} else {
					fmt.Printf("UNCONFIRMED %s: %s — native run says %q; the encoding or a stub disagrees with the compiled code, not reported as a violation\n", h.Func, desc, res[i])
					rep.Incomplete = append(rep.Incomplete, "unconfirmed: "+desc+" => "+res[i])
					bump(2)
				}
			}
		}
		// translator validation: witness inputs of clean paths must run clean natively
		if len(ex.samples) > 0 && !h.NoReplay && os.Getenv("VERIF_NO_SAMPLE_REPLAY") == "" {
			rf := &ReplayFile{Harness: h.Pkg + "." + h.Func, Pkg: h.Pkg, Func: h.Func, Params: ts.Params, Race: h.Race, Repeat: h.Repeat}
			n := len(ex.samples)
			if tier == "quick" && n > 3 {
				n = 3
			}
			for _, s := range ex.samples[:n] {
				rf.Vectors = append(rf.Vectors, s.Vector)
			}
			res, _, rerr := nativeReplay(rf, 120*time.Second)
			if rerr != nil {
				fmt.Printf("INCOMPLETE %s: %v\n", h.Func, rerr)
				rep.Incomplete = append(rep.Incomplete, "native sample replay failed to run")
				bump(2)
			} else {
				for i, r := range res {
					if r == "clean" {
						rep.NativeAgree++
					} else {
						fmt.Printf("INCOMPLETE %s: TRANSLATOR-DISAGREEMENT — engine path %v is clean, native run on its witness %s says %q\n", h.Func, ex.samples[i].Prefix, vecString(ex.samples[i].Vector), r)
						rep.Incomplete = append(rep.Incomplete, "translator disagreement on a sample path: "+r)
						bump(2)
					}
				}
			}
			totalValidated += rep.NativeAgree
		}
		for i, s := range ex.samples {
			if i < 3 {
				samples = append(samples, map[string]interface{}{"harness": h.Func, "decisions": s.Prefix, "inputs": vecString(s.Vector)})
			}
		}
	}

	// evidence
	if only == "" {
		ev := map[string]interface{}{
			"property_id": prop,
			"tier":        tier,
			"seed":        seed,
			"level":       "model_checking",
			"wall_s":      time.Since(t0).Seconds(),
			"violations":  totalViol,
			"assumptions": append(append([]string{}, pc.Assumptions...), prefixAll("outside the claim: ", pc.Outside)...),
			"coverage": map[string]interface{}{
				"states":                        maxInt(totalStates, 0),
				"transitions":                   totalTrans,
				"traces_validated_against_impl": totalValidated,
				"samples":                       samplesOrNote(samples),
				"explanation":                   "states = symbolic paths (path-condition classes) explored to completion or infeasibility; transitions = choice points decided + solver queries discharged; every path covers all concrete inputs satisfying its path condition; traces_validated = witness inputs of sampled paths and of violations replayed against the natively compiled real code",
				"harnesses":                     reports,
				"solver":                        solverVersion(solverBin),
				"engine":                        "gosx: bounded symbolic execution of go/ssa built from the working tree at run time",
				"exit_status":                   exit,
			},
		}
		os.MkdirAll(filepath.Join(verifDir, "evidence"), 0o755)
		b, _ := json.MarshalIndent(ev, "", " ")
		if err := os.WriteFile(filepath.Join(verifDir, "evidence", prop+".json"), b, 0o644); err != nil {
			fmt.Fprintln(os.Stderr, "ERROR: writing evidence:", err)
			return 2
		}
	}
	switch exit {
	case 0:
		fmt.Printf("gosx: %s held on everything explored (%d paths, %.1fs)\n", prop, totalStates, time.Since(t0).Seconds())
	case 1:
		fmt.Printf("gosx: %s VIOLATED (%d confirmed)\n", prop, totalViol)
	default:
		fmt.Printf("gosx: %s INCOMPLETE — not a verdict\n", prop)
	}
	return exit
}

func samplesOrNote(s []interface{}) []interface{} {
	if len(s) == 0 {
		return []interface{}{"no completed path to sample"}
	}
	return s
}

func maxInt(a, b int) int {
	if a > b {
		return a
	}
	return b
}

func prefixAll(p string, xs []string) []string {
	out := make([]string, len(xs))
	for i, x := range xs {
		out[i] = p + x
	}
	return out
}

func firstLine(s string) string {
	if i := strings.Index(s, "\n"); i >= 0 {
		return s[:i]
	}
	return s
}

func dedupe(xs []string) []string {
	seen := map[string]bool{}
	var out []string
	for _, x := range xs {
		if !seen[x] {
			seen[x] = true
			out = append(out, x)
		}
	}
	sort.Strings(out)
	return out
}

func relPos(p string) string { return strings.TrimPrefix(p, repoDir+"/") }

func vecString(v []NdVal) string {
	var sb strings.Builder
	sb.WriteString("[")
	for i, e := range v {
		if i > 0 {
			sb.WriteString(" ")
		}
		if i >= 48 {
			fmt.Fprintf(&sb, "…(%d more)", len(v)-i)
			break
		}
		fmt.Fprintf(&sb, "%s=%s", e.Name, e.Value)
	}
	sb.WriteString("]")
	return sb.String()
}

func writeReplay(prop, fn string, rf *ReplayFile) string {
	b, _ := json.MarshalIndent(rf, "", " ")
	h := sha1.Sum(b)
	dir := filepath.Join(verifDir, "replays")
	os.MkdirAll(dir, 0o755)
	p := filepath.Join(dir, fmt.Sprintf("%s-%s-%x.json", prop, fn, h[:5]))
	os.WriteFile(p, b, 0o644)
	return p
}

func runReplayFile(path string) int {
	b, err := os.ReadFile(path)
	if err != nil {
		fmt.Fprintln(os.Stderr, err)
		return 2
	}
	var rf ReplayFile
	if err := json.Unmarshal(b, &rf); err != nil {
		fmt.Fprintln(os.Stderr, err)
		return 2
	}
	res, text, err := nativeReplay(&rf, 120*time.Second)
	if err != nil {
		fmt.Println(text)
		fmt.Fprintln(os.Stderr, err)
		return 2
	}
	code := 0
	for i, r := range res {
		exp := ""
		if i < len(rf.Expect) {
			exp = rf.Expect[i]
		}
		fmt.Printf("vector %d: native outcome %q (engine predicted %q) inputs %s\n", i, r, exp, vecString(rf.Vectors[i]))
		if reproduced(r) {
			code = 1
		}
	}
	if code == 1 {
		fmt.Printf("VIOLATION property=%s replay=%s\n", rf.Property, path)
	}
	return code
}
