package main

import (
	"fmt"
	"go/types"
	"strconv"
	"strings"
)

// Contract stubs for decimal numerals of symbolic 64-bit integers.
//
// FormatInt/FormatUint/AppendInt/AppendUint/Itoa with a symbolic argument
// case-split on sign and digit count (range comparisons against powers of
// ten). For < 10^4 the digits are exact terms (16-bit division by constants);
// above, the digits are fresh bytes constrained to be decimal digits without a
// leading zero, and the numeral is remembered so that ParseInt/ParseUint/Atoi
// of exactly that byte sequence hands back the original term (inverse
// cancellation at term construction). The relation digits<->value is *not*
// given to the solver for long numerals: every verdict "holds" is for all
// digit strings of that length (an over-approximation), and a counterexample
// that depended on specific long digits would fail its native replay and be
// reported UNCONFIRMED, never as a violation.
type numInfo struct {
	x      *Term // 64-bit
	signed bool
}

func pow10(n int) uint64 {
	r := uint64(1)
	for i := 0; i < n; i++ {
		r *= 10
	}
	return r
}

func numKey(bs []*Term) string {
	var sb strings.Builder
	for _, b := range bs {
		fmt.Fprintf(&sb, "%d,", b.id)
	}
	return sb.String()
}

func (c *Ctx) numeral(x *Term, signed bool) *Str {
	if x.width != 64 {
		if signed {
			x = SExt(x, 64)
		} else {
			x = ZExt(x, 64)
		}
	}
	if x.isC {
		if signed {
			return strConst(strconv.FormatInt(int64(x.cval), 10))
		}
		return strConst(strconv.FormatUint(x.cval, 10))
	}
	out := &Str{}
	abs := x
	if signed {
		if c.branch(Cmp("bvslt", x, BV(0, 64))) {
			out.b = append(out.b, BV('-', 8))
			abs = BvNeg(x)
		}
	}
	maxDigits := 20
	ub := ubound(abs, 8)
	for maxDigits > 1 && ub < pow10(maxDigits-1) {
		maxDigits--
	}
	gs := make([]*Term, maxDigits)
	for n := 1; n <= maxDigits; n++ {
		g := Bool(true)
		if n > 1 {
			g = Cmp("bvule", BV(pow10(n-1), 64), abs)
		}
		if n < 20 {
			g = And(g, Cmp("bvult", abs, BV(pow10(n), 64)))
		}
		gs[n-1] = g
	}
	n := c.chooseX(gs, true) + 1
	if n <= 4 {
		a16 := Extract(abs, 15, 0)
		for k := n - 1; k >= 0; k-- {
			d := BinBV("bvurem", BinBV("bvudiv", a16, BV(pow10(k), 16)), BV(10, 16))
			out.b = append(out.b, BinBV("bvadd", Extract(d, 7, 0), BV('0', 8)))
		}
	} else {
		for k := 0; k < n; k++ {
			d := Var(fmt.Sprintf("num!%d!%d!%d", x.id, n, k), 8)
			lo := uint64('0')
			if k == 0 {
				lo = '1'
			}
			c.addPC(Cmp("bvule", BV(lo, 8), d))
			c.addPC(Cmp("bvule", d, BV('9', 8)))
			out.b = append(out.b, d)
		}
	}
	if c.numMemo == nil {
		c.numMemo = map[string]numInfo{}
	}
	c.numMemo[numKey(out.b)] = numInfo{x: x, signed: signed}
	return out
}

func (c *Ctx) strconvErr(what string) Value { return c.errorValue("strconv: " + what) }

// parseNumeral: (value, known). known=false → caller interprets the real body.
func (c *Ctx) parseNumeral(s *Str, wantSigned bool, bitSize int) (Value, bool) {
	if len(s.b) == 0 {
		return nil, false
	}
	info, ok := c.numMemo[numKey(s.b)]
	if !ok {
		return nil, false
	}
	if bitSize == 0 {
		bitSize = 64
	}
	x := info.x
	var inRange *Term
	if wantSigned {
		// value as a mathematical integer must fit in a signed bitSize
		if info.signed {
			if bitSize == 64 {
				inRange = Bool(true)
			} else {
				lo := BV(uint64(-(int64(1) << uint(bitSize-1))), 64)
				hi := BV(uint64((int64(1)<<uint(bitSize-1))-1), 64)
				inRange = And(Cmp("bvsle", lo, x), Cmp("bvsle", x, hi))
			}
		} else {
			hi := BV(uint64((uint64(1)<<uint(bitSize-1))-1), 64)
			inRange = Cmp("bvule", x, hi)
		}
	} else {
		if info.signed {
			// a negative numeral is a syntax error for ParseUint
			inRange = Not(Cmp("bvslt", x, BV(0, 64)))
			if bitSize < 64 {
				inRange = And(inRange, Cmp("bvule", x, BV((uint64(1)<<uint(bitSize))-1, 64)))
			}
		} else if bitSize == 64 {
			inRange = Bool(true)
		} else {
			inRange = Cmp("bvule", x, BV((uint64(1)<<uint(bitSize))-1, 64))
		}
	}
	if c.branch(inRange) {
		return Tuple{x, Iface{}}, true
	}
	return Tuple{BV(0, 64), c.strconvErr("value out of range or invalid syntax")}, true
}

func installNum(c *Ctx) {
	in := c.intrinsics
	bytesOf := func(s *Str) Slice {
		a := &Arr{e: make([]Value, len(s.b))}
		for i, b := range s.b {
			a.e[i] = b
		}
		return Slice{back: a, len: len(s.b), cap: len(s.b)}
	}
	appendTo := func(c *Ctx, dst Slice, s *Str) Value {
		add := bytesOf(s)
		n := dst.len + add.len
		a := &Arr{e: make([]Value, n)}
		for k := 0; k < dst.len; k++ {
			a.e[k] = dst.back.e[dst.off+k]
		}
		for k := 0; k < add.len; k++ {
			a.e[dst.len+k] = add.back.e[k]
		}
		return Slice{back: a, len: n, cap: n}
	}
	base10 := func(c *Ctx, b Value) bool {
		t := b.(*Term)
		return t.isC && t.cval == 10
	}
	fallback := func(c *Ctx, a []Value) Value {
		c.bypass = true
		return c.call(c.curCallee, a)
	}
	in["strconv.FormatInt"] = func(c *Ctx, a []Value) Value {
		if a[0].(*Term).isC || !base10(c, a[1]) {
			return fallback(c, a)
		}
		return c.numeral(a[0].(*Term), true)
	}
	in["strconv.FormatUint"] = func(c *Ctx, a []Value) Value {
		if a[0].(*Term).isC || !base10(c, a[1]) {
			return fallback(c, a)
		}
		return c.numeral(a[0].(*Term), false)
	}
	in["strconv.Itoa"] = func(c *Ctx, a []Value) Value {
		if a[0].(*Term).isC {
			return strConst(strconv.Itoa(int(int64(a[0].(*Term).cval))))
		}
		return c.numeral(a[0].(*Term), true)
	}
	in["strconv.AppendInt"] = func(c *Ctx, a []Value) Value {
		if a[1].(*Term).isC || !base10(c, a[2]) {
			return fallback(c, a)
		}
		return appendTo(c, a[0].(Slice), c.numeral(a[1].(*Term), true))
	}
	in["strconv.AppendUint"] = func(c *Ctx, a []Value) Value {
		if a[1].(*Term).isC || !base10(c, a[2]) {
			return fallback(c, a)
		}
		return appendTo(c, a[0].(Slice), c.numeral(a[1].(*Term), false))
	}
	in["strconv.ParseInt"] = func(c *Ctx, a []Value) Value {
		s := a[0].(*Str)
		if cs, ok := s.concrete(); ok && a[1].(*Term).isC && a[2].(*Term).isC {
			v, err := strconv.ParseInt(cs, int(a[1].(*Term).cval), int(a[2].(*Term).cval))
			if err != nil {
				return fallback(c, a) // let the real body build its *NumError
			}
			return Tuple{BV(uint64(v), 64), Iface{}}
		}
		if base10(c, a[1]) && a[2].(*Term).isC {
			if r, ok := c.parseNumeral(s, true, int(a[2].(*Term).cval)); ok {
				return r
			}
		}
		return fallback(c, a)
	}
	in["strconv.ParseUint"] = func(c *Ctx, a []Value) Value {
		s := a[0].(*Str)
		if cs, ok := s.concrete(); ok && a[1].(*Term).isC && a[2].(*Term).isC {
			v, err := strconv.ParseUint(cs, int(a[1].(*Term).cval), int(a[2].(*Term).cval))
			if err != nil {
				return fallback(c, a)
			}
			return Tuple{BV(v, 64), Iface{}}
		}
		if base10(c, a[1]) && a[2].(*Term).isC {
			if r, ok := c.parseNumeral(s, false, int(a[2].(*Term).cval)); ok {
				return r
			}
		}
		return fallback(c, a)
	}
	in["strconv.Atoi"] = func(c *Ctx, a []Value) Value {
		s := a[0].(*Str)
		if cs, ok := s.concrete(); ok {
			v, err := strconv.Atoi(cs)
			if err != nil {
				return fallback(c, a)
			}
			return Tuple{BV(uint64(int64(v)), 64), Iface{}}
		}
		if r, ok := c.parseNumeral(s, true, 64); ok {
			return r
		}
		return fallback(c, a)
	}
}

// ---- reflect subset (what scalarReflectFromGo uses) ----

type rvTag struct{ i Iface }

func (c *Ctx) mkRV(i Iface) Value {
	t := c.namedType("reflect", "Value")
	s := zero(t).(*Struct)
	s.f[0] = rvTag{i}
	return s
}

func rvOf(v Value) Iface {
	s := v.(*Struct)
	t, ok := s.f[0].(rvTag)
	if !ok {
		return Iface{}
	}
	return t.i
}

func reflectKind(t types.Type) uint64 {
	if t == nil {
		return 0
	}
	switch u := t.Underlying().(type) {
	case *types.Basic:
		switch u.Kind() {
		case types.Bool:
			return 1
		case types.Int:
			return 2
		case types.Int8:
			return 3
		case types.Int16:
			return 4
		case types.Int32:
			return 5
		case types.Int64:
			return 6
		case types.Uint:
			return 7
		case types.Uint8:
			return 8
		case types.Uint16:
			return 9
		case types.Uint32:
			return 10
		case types.Uint64:
			return 11
		case types.Uintptr:
			return 12
		case types.Float32:
			return 13
		case types.Float64:
			return 14
		case types.String:
			return 24
		case types.UnsafePointer:
			return 26
		}
	case *types.Array:
		return 17
	case *types.Chan:
		return 18
	case *types.Signature:
		return 19
	case *types.Interface:
		return 20
	case *types.Map:
		return 21
	case *types.Pointer:
		return 22
	case *types.Slice:
		return 23
	case *types.Struct:
		return 25
	}
	return 0
}

func installReflect(c *Ctx) {
	in := c.intrinsics
	in["reflect.ValueOf"] = func(c *Ctx, a []Value) Value { return c.mkRV(a[0].(Iface)) }
	in["(reflect.Value).Kind"] = func(c *Ctx, a []Value) Value { return BV(reflectKind(rvOf(a[0]).t), 64) }
	in["(reflect.Value).IsValid"] = func(c *Ctx, a []Value) Value { return Bool(rvOf(a[0]).t != nil) }
	in["(reflect.Value).IsNil"] = func(c *Ctx, a []Value) Value {
		i := rvOf(a[0])
		switch v := i.v.(type) {
		case *Ptr:
			return Bool(v == nil)
		case *Map:
			return Bool(v == nil)
		case Slice:
			return Bool(v.back == nil)
		case Iface:
			return Bool(v.t == nil)
		case *Closure:
			return Bool(v == nil)
		}
		panic(&goPanic{what: "reflect: call of reflect.Value.IsNil on non-nillable value", pos: c.cp()})
	}
	in["(reflect.Value).Elem"] = func(c *Ctx, a []Value) Value {
		i := rvOf(a[0])
		pt, ok := i.t.Underlying().(*types.Pointer)
		if !ok {
			panic(&goPanic{what: "reflect: call of reflect.Value.Elem on non-pointer value", pos: c.cp()})
		}
		p := i.v.(*Ptr)
		if p == nil {
			return c.mkRV(Iface{})
		}
		return c.mkRV(Iface{t: pt.Elem(), v: c.load(p)})
	}
	in["(reflect.Value).Interface"] = func(c *Ctx, a []Value) Value {
		i := rvOf(a[0])
		if i.t == nil {
			panic(&goPanic{what: "reflect: call of reflect.Value.Interface on zero Value", pos: c.cp()})
		}
		return i
	}
	in["(reflect.Value).CanFloat"] = func(c *Ctx, a []Value) Value {
		k := reflectKind(rvOf(a[0]).t)
		return Bool(k == 13 || k == 14)
	}
	in["(reflect.Value).Float"] = func(c *Ctx, a []Value) Value {
		i := rvOf(a[0])
		k := reflectKind(i.t)
		if k != 13 && k != 14 {
			panic(&goPanic{what: "reflect: call of reflect.Value.Float on non-float value", pos: c.cp()})
		}
		return i.v
	}
}
