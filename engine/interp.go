package main

import (
	"fmt"
	"go/constant"
	"go/token"
	"go/types"
	"strings"

	"golang.org/x/tools/go/ssa"
)

type frame struct {
	fn     *ssa.Function
	info   *fnInfo
	env    []Value
	set    []bool
	defers []func()
	result Value
}

func (c *Ctx) constVal(k *ssa.Const) Value {
	t := k.Type()
	if k.Value == nil {
		return zero(t)
	}
	switch u := t.Underlying().(type) {
	case *types.Basic:
		if u.Info()&types.IsString != 0 {
			return strConst(constant.StringVal(k.Value))
		}
		if u.Info()&types.IsBoolean != 0 {
			return Bool(constant.BoolVal(k.Value))
		}
		if u.Info()&types.IsInteger != 0 {
			w, _ := intWidth(t)
			if i, ok := constant.Int64Val(constant.ToInt(k.Value)); ok {
				return BV(uint64(i), w)
			}
			ui, _ := constant.Uint64Val(constant.ToInt(k.Value))
			return BV(ui, w)
		}
		if u.Info()&types.IsFloat != 0 {
			return Opaque{"float:" + k.Value.String()}
		}
	}
	c.errf("const of type %s", t)
	return nil
}

func (c *Ctx) get(f *frame, v ssa.Value) Value {
	switch x := v.(type) {
	case *ssa.Const:
		return c.constVal(x)
	case *ssa.Global:
		return &Ptr{slot: c.global(x)}
	case *ssa.Function:
		return &Closure{fn: x}
	case *ssa.Builtin:
		return x
	}
	idx, ok := f.info.index[v]
	if !ok || !f.set[idx] {
		c.errf("no value for %s (%T) in %s", v.Name(), v, f.fn)
	}
	return f.env[idx]
}

// fnInfo caches per-function facts that are expensive to recompute per call.
type fnInfo struct {
	name      string
	index     map[ssa.Value]int
	n         int
	intrinsic func(c *Ctx, args []Value) Value
	pbReflect *types.Struct
	skip      bool
}

func (c *Ctx) info(fn *ssa.Function) *fnInfo {
	if fi, ok := c.fnInfos[fn]; ok {
		return fi
	}
	fi := &fnInfo{name: fn.String(), index: map[ssa.Value]int{}}
	add := func(v ssa.Value) {
		if _, ok := fi.index[v]; !ok {
			fi.index[v] = fi.n
			fi.n++
		}
	}
	for _, p := range fn.Params {
		add(p)
	}
	for _, p := range fn.FreeVars {
		add(p)
	}
	for _, b := range fn.Blocks {
		for _, in := range b.Instrs {
			if v, ok := in.(ssa.Value); ok {
				add(v)
			}
		}
	}
	fi.intrinsic = c.intrinsics[fi.name]
	if fn.Name() == "ProtoReflect" && fn.Signature.Recv() != nil && len(fn.Params) == 1 {
		if pt, ok := fn.Signature.Recv().Type().(*types.Pointer); ok {
			harnessType := false
			if nt, ok := pt.Elem().(*types.Named); ok {
				n := nt.Obj().Name()
				harnessType = strings.HasPrefix(n, "verif") || strings.HasPrefix(n, "Verif")
			}
			// generated messages only: harness fakes implement ProtoReflect themselves
			if st, ok := pt.Elem().Underlying().(*types.Struct); ok && !harnessType {
				fi.pbReflect = st
			}
		}
	}
	if strings.Contains(fn.Name(), "_proto_init") && strings.HasPrefix(fn.Name(), "file_") {
		fi.skip = true
	}
	c.fnInfos[fn] = fi
	return fi
}

func (f *frame) put(v ssa.Value, x Value) {
	idx := f.info.index[v]
	f.env[idx] = x
	f.set[idx] = true
}

func (c *Ctx) newFrame(fn *ssa.Function, fi *fnInfo) *frame {
	return &frame{fn: fn, info: fi, env: make([]Value, fi.n), set: make([]bool, fi.n)}
}

func (c *Ctx) global(g *ssa.Global) *Value {
	if s, ok := c.globals[g]; ok {
		return s
	}
	s := new(Value)
	*s = zero(g.Type().(*types.Pointer).Elem())
	c.globals[g] = s
	if g.Pkg != nil && !c.inited[g.Pkg] {
		c.inited[g.Pkg] = true
		// packages whose init only reads process settings (GODEBUG): their globals keep
		// the zero value, i.e. the default configuration (FIPS-only mode off)
		skipInit := g.Pkg.Pkg.Path() == "crypto/internal/fips140only"
		if init := g.Pkg.Func("init"); init != nil && !skipInit {
			// package initialisation happens before main in Go: its writes are
			// not accesses of whichever logical thread triggered the lazy init
			c.noTrack++
			c.explicitInit = true
			c.call(init, nil)
			c.noTrack--
		}
	}
	return s
}

func (c *Ctx) call(fn *ssa.Function, args []Value) Value {
	fi := c.info(fn)
	name := fi.name
	if fi.pbReflect != nil && len(args) == 1 {
		p, _ := args[0].(*Ptr)
		return Iface{t: pbMsgType, v: pbMsg{p: p, st: fi.pbReflect, pt: fn.Signature.Recv().Type()}}
	}
	if fi.intrinsic != nil && !c.bypass {
		c.curCallee = fn
		return fi.intrinsic(c, args)
	}
	c.bypass = false
	if fn.Blocks == nil {
		c.errf("external function %s", name)
	}
	if fn.Synthetic == "package initializer" && !c.explicitInit {
		return nil // nested package inits are skipped; each package is initialised lazily on first global access
	}
	c.explicitInit = false
	if fi.skip {
		return nil
	}
	c.depth++
	c.stack = append(c.stack, fn)
	c.funcs[fn]++
	if c.depth > c.depthMax {
		if c.termBudget > 0 {
			panic(stepLimit{})
		}
		c.errf("call depth exceeded in %s", name)
	}
	defer func() { c.depth--; c.stack = c.stack[:len(c.stack)-1] }()
	f := c.newFrame(fn, fi)
	for i, p := range fn.Params {
		f.put(p, args[i])
	}
	return c.run(f)
}

func (c *Ctx) run(f *frame) (result Value) {
	var prev *ssa.BasicBlock
	b := f.fn.Blocks[0]
	defer func() {
		if r := recover(); r != nil {
			if _, isGo := r.(*goPanic); isGo && len(f.defers) > 0 {
				// run defers (no recover support in spike)
				for i := len(f.defers) - 1; i >= 0; i-- {
					f.defers[i]()
				}
			}
			panic(r)
		}
	}()
	for {
		var next *ssa.BasicBlock
		for _, in := range b.Instrs {
			c.steps++
			if c.steps > c.stepMax {
				panic(stepLimit{})
			}
			if p := in.Pos(); p != token.NoPos {
				c.curTok, c.posOverride = p, ""
			}
			switch i := in.(type) {
			case *ssa.Phi:
				for k, pb := range b.Preds {
					if pb == prev {
						f.put(i, c.get(f, i.Edges[k]))
						break
					}
				}
			case *ssa.Jump:
				next = b.Succs[0]
			case *ssa.If:
				cond := c.get(f, i.Cond).(*Term)
				if c.branch(cond) {
					next = b.Succs[0]
				} else {
					next = b.Succs[1]
				}
			case *ssa.Return:
				for k := len(f.defers) - 1; k >= 0; k-- {
					f.defers[k]()
				}
				f.defers = nil
				switch len(i.Results) {
				case 0:
					return nil
				case 1:
					return c.get(f, i.Results[0])
				}
				t := make(Tuple, len(i.Results))
				for k, r := range i.Results {
					t[k] = c.get(f, r)
				}
				return t
			case *ssa.RunDefers:
				for k := len(f.defers) - 1; k >= 0; k-- {
					f.defers[k]()
				}
				f.defers = nil
			case *ssa.Panic:
				panic(&goPanic{val: c.get(f, i.X), what: "explicit panic", pos: c.cp()})
			case *ssa.Store:
				ap := c.get(f, i.Addr).(*Ptr)
				if _, local := i.Addr.(*ssa.Alloc); !local && ap != nil && ap.slot != nil {
					c.visible(ap.slot, true, "store "+i.Addr.Name())
				}
				c.store(ap, c.get(f, i.Val))
			case *ssa.MapUpdate:
				c.visible(c.get(f, i.Map).(*Map), true, "map "+i.Map.Name())
				c.mapUpdate(c.get(f, i.Map).(*Map), c.get(f, i.Key), c.get(f, i.Value))
			case *ssa.Defer:
				fnv, args := c.prepCall(f, &i.Call)
				f.defers = append(f.defers, func() { c.invoke(fnv, args) })
			case *ssa.DebugRef:
			case ssa.Value:
				f.put(i, c.eval(f, i))
			default:
				c.errf("unsupported instr %T", in)
			}
		}
		if next == nil {
			c.errf("block fell through in %s", f.fn)
		}
		prev, b = b, next
	}
}

func (c *Ctx) load(p *Ptr) Value {
	if p == nil {
		panic(&goPanic{what: "nil pointer dereference", pos: c.cp()})
	}
	if p.symIdx != nil {
		// run-length compressed ite chain
		var acc *Term
		n := len(p.symElems)
		w := p.symIdx.width
		if ub := ubound(p.symIdx, 6); ub < uint64(n-1) {
			n = int(ub) + 1 // the index is syntactically known to be below n
		}
		k := n - 1
		for k >= 0 {
			e, ok := p.symElems[k].(*Term)
			if !ok {
				c.errf("symbolic index load of non-scalar")
			}
			j := k
			for j > 0 && p.symElems[j-1] == Value(e) {
				j--
			}
			if acc == nil {
				acc = e
			} else if j == k {
				acc = Ite(Cmp("=", p.symIdx, BV(uint64(k), w)), e, acc)
			} else {
				in := And(Cmp("bvule", BV(uint64(j), w), p.symIdx), Cmp("bvule", p.symIdx, BV(uint64(k), w)))
				acc = Ite(in, e, acc)
			}
			k = j - 1
		}
		return acc
	}
	return copyVal(*p.slot)
}

func (c *Ctx) store(p *Ptr, v Value) {
	if p == nil {
		panic(&goPanic{what: "nil pointer dereference (store)", pos: c.cp()})
	}
	if p.symIdx != nil {
		nv := v.(*Term)
		for k := range p.symElems {
			old := p.symElems[k].(*Term)
			p.symElems[k] = Ite(Cmp("=", p.symIdx, BV(uint64(k), p.symIdx.width)), nv, old)
		}
		return
	}
	*p.slot = copyVal(v)
}

func (c *Ctx) prepCall(f *frame, cc *ssa.CallCommon) (Value, []Value) {
	args := make([]Value, 0, len(cc.Args)+1)
	var fnv Value
	if cc.IsInvoke() {
		recv := c.get(f, cc.Value).(Iface)
		if recv.t == nil {
			what := "invoke on nil interface " + cc.Method.Name()
			// a method promoted from the nil interface embedded in a harness fake:
			// the fake does not model it (never a finding about the code under test)
			if f.fn.Synthetic != "" && f.fn.Signature.Recv() != nil {
				rt := f.fn.Signature.Recv().Type()
				if p, ok := rt.(*types.Pointer); ok {
					rt = p.Elem()
				}
				if n, ok := rt.(*types.Named); ok && strings.Contains(c.prog.Fset.Position(n.Obj().Pos()).Filename, "zz_verif_") {
					what = "UNMODELLED: fake " + n.Obj().Name() + " does not implement " + cc.Method.Name()
				}
			}
			panic(&goPanic{what: what, pos: c.cp()})
		}
		if isEngineType(recv.t) {
			var eargs []Value
			for _, a := range cc.Args {
				eargs = append(eargs, c.get(f, a))
			}
			mname := cc.Method.Name()
			r := recv
			return &Closure{fn: engineCall(func() Value {
				v, ok := c.engineInvoke(r, mname, eargs)
				if !ok {
					c.errf("pb-lite: method %s not modelled", mname)
				}
				return v
			})}, nil
		}
		ms := c.prog.MethodSets.MethodSet(recv.t)
		sel := ms.Lookup(cc.Method.Pkg(), cc.Method.Name())
		if sel == nil {
			c.errf("no method %s on %s", cc.Method.Name(), recv.t)
		}
		fnv = &Closure{fn: c.prog.MethodValue(sel)}
		args = append(args, recv.v)
	} else {
		fnv = c.get(f, cc.Value)
	}
	for _, a := range cc.Args {
		args = append(args, c.get(f, a))
	}
	return fnv, args
}

func (c *Ctx) invoke(fnv Value, args []Value) Value {
	switch fn := fnv.(type) {
	case *ssa.Builtin:
		return c.builtin(fn, args)
	case *Closure:
		if fn == nil {
			panic(&goPanic{what: "call of nil func", pos: c.cp()})
		}
		if ec, ok := fn.fn.(engineCall); ok {
			return ec()
		}
		sf := fn.fn.(*ssa.Function)
		if len(fn.fv) == 0 {
			return c.call(sf, args)
		}
		return c.callClosure(sf, fn.fv, args)
	}
	c.errf("invoke of %T", fnv)
	return nil
}

func (c *Ctx) callClosure(fn *ssa.Function, fv []Value, args []Value) Value {
	c.depth++
	defer func() { c.depth-- }()
	f := c.newFrame(fn, c.info(fn))
	for i, p := range fn.Params {
		f.put(p, args[i])
	}
	for i, p := range fn.FreeVars {
		f.put(p, fv[i])
	}
	return c.run(f)
}

func asInt(v Value) *Term { return v.(*Term) }

// idx64 widens an index operand to 64 bits according to its static signedness
func (c *Ctx) idx64(f *frame, v ssa.Value) *Term {
	t := c.get(f, v).(*Term)
	_, signed := intWidth(v.Type())
	if signed {
		return SExt(t, 64)
	}
	return ZExt(t, 64)
}

func (c *Ctx) eval(f *frame, in ssa.Value) Value {
	switch i := in.(type) {
	case *ssa.Alloc:
		s := new(Value)
		*s = zero(i.Type().(*types.Pointer).Elem())
		return &Ptr{slot: s}
	case *ssa.UnOp:
		x := c.get(f, i.X)
		switch i.Op {
		case token.MUL:
			if _, local := i.X.(*ssa.Alloc); !local {
				if xp := x.(*Ptr); xp != nil && xp.slot != nil {
					c.visible(xp.slot, false, "load "+i.X.Name())
				}
			}
			return c.load(x.(*Ptr))
		case token.NOT:
			return Not(x.(*Term))
		case token.SUB:
			return BvNeg(x.(*Term))
		case token.XOR:
			return BvNot(x.(*Term))
		}
		c.errf("unop %s", i.Op)
	case *ssa.BinOp:
		return c.binop(i.Op, i.X.Type(), c.get(f, i.X), c.get(f, i.Y), i.Y.Type())
	case *ssa.Call:
		fnv, args := c.prepCall(f, &i.Call)
		return c.invoke(fnv, args)
	case *ssa.ChangeType:
		return c.get(f, i.X)
	case *ssa.ChangeInterface:
		return c.get(f, i.X)
	case *ssa.MakeInterface:
		return Iface{t: i.X.Type(), v: c.get(f, i.X)}
	case *ssa.Extract:
		return c.get(f, i.Tuple).(Tuple)[i.Index]
	case *ssa.FieldAddr:
		p := c.get(f, i.X).(*Ptr)
		if p == nil {
			panic(&goPanic{what: "nil pointer dereference (field)", pos: c.cp()})
		}
		return &Ptr{slot: &(*p.slot).(*Struct).f[i.Field]}
	case *ssa.Field:
		return c.get(f, i.X).(*Struct).f[i.Field]
	case *ssa.IndexAddr:
		x := c.get(f, i.X)
		idx := c.idx64(f, i.Index)
		var elems []Value
		switch xv := x.(type) {
		case Slice:
			if xv.back == nil {
				elems = nil
			} else {
				elems = xv.back.e[xv.off : xv.off+xv.len]
			}
		case *Ptr:
			if xv == nil {
				panic(&goPanic{what: "nil array pointer", pos: c.cp()})
			}
			elems = (*xv.slot).(*Arr).e
		default:
			c.errf("indexaddr on %T", x)
		}
		return c.elemPtr(elems, idx)
	case *ssa.Index:
		x := c.get(f, i.X)
		idx := c.idx64(f, i.Index)
		switch xv := x.(type) {
		case *Arr:
			return c.load(c.elemPtr(xv.e, idx))
		case *Str:
			return c.strIndex(xv, idx)
		}
		c.errf("index on %T", x)
	case *ssa.Lookup:
		x := c.get(f, i.X)
		switch xv := x.(type) {
		case *Str:
			return c.strIndex(xv, c.idx64(f, i.Index))
		case *Map:
			c.visible(xv, false, "map "+i.X.Name())
			v, ok := c.mapLookup(xv, c.get(f, i.Index), i.X.Type().Underlying().(*types.Map).Elem())
			if i.CommaOk {
				return Tuple{v, ok}
			}
			return v
		}
		c.errf("lookup on %T", x)
	case *ssa.Slice:
		return c.slice(f, i)
	case *ssa.MakeSlice:
		n := c.concretize(asInt(c.get(f, i.Len)), 64)
		cp := c.concretize(asInt(c.get(f, i.Cap)), 4096)
		a := &Arr{e: make([]Value, cp)}
		et := i.Type().Underlying().(*types.Slice).Elem()
		for k := range a.e {
			a.e[k] = zero(et)
		}
		return Slice{back: a, off: 0, len: n, cap: cp}
	case *ssa.MakeMap:
		return &Map{}
	case *ssa.MakeClosure:
		fv := make([]Value, len(i.Bindings))
		for k, b := range i.Bindings {
			fv[k] = c.get(f, b)
		}
		return &Closure{fn: i.Fn.(*ssa.Function), fv: fv}
	case *ssa.Convert:
		return c.convert(i.X.Type(), i.Type(), c.get(f, i.X))
	case *ssa.TypeAssert:
		return c.typeAssert(i, c.get(f, i.X).(Iface))
	case *ssa.Range:
		x := c.get(f, i.X)
		switch xv := x.(type) {
		case *Str:
			return &strIter{s: xv}
		case *Map:
			return &mapIter{m: xv}
		}
		c.errf("range over %T", x)
	case *ssa.Next:
		it := c.get(f, i.Iter)
		switch iv := it.(type) {
		case *strIter:
			return c.strNext(iv)
		case *mapIter:
			if iv.m == nil {
				return Tuple{Bool(false), nil, nil}
			}
			if !iv.started {
				iv.started = true
				n := len(iv.m.keys)
				iv.rest = make([]int, n)
				for k := range iv.rest {
					iv.rest[k] = k
				}
				// Go leaves map iteration order undefined: within the bound the next
				// entry is a choice point, so every permutation is explored
				iv.symbolic = n > 1 && n <= c.mapOrderMax
			}
			if len(iv.rest) == 0 {
				return Tuple{Bool(false), nil, nil}
			}
			pick := 0
			if iv.symbolic && len(iv.rest) > 1 {
				pick = c.chooseFree(len(iv.rest))
			}
			idx := iv.rest[pick]
			iv.rest = append(append([]int{}, iv.rest[:pick]...), iv.rest[pick+1:]...)
			return Tuple{Bool(true), iv.m.keys[idx], iv.m.vals[idx]}
		}
	case *ssa.SliceToArrayPointer:
		s := c.get(f, i.X).(Slice)
		n := int(i.Type().(*types.Pointer).Elem().Underlying().(*types.Array).Len())
		if s.len < n {
			panic(&goPanic{what: "slice to array pointer: too short", pos: c.cp()})
		}
		slot := new(Value)
		*slot = &Arr{e: s.back.e[s.off : s.off+n : s.off+n]}
		return &Ptr{slot: slot}
	}
	c.errf("unsupported value instr %T", in)
	return nil
}

type strIter struct {
	s   *Str
	pos int
}
type mapIter struct {
	m        *Map
	started  bool
	symbolic bool
	rest     []int
}

func (c *Ctx) elemPtr(elems []Value, idx *Term) *Ptr {
	n := len(elems)
	inb := And(Cmp("bvsle", BV(0, idx.width), idx), Cmp("bvslt", idx, BV(uint64(n), idx.width)))
	if !inb.IsTrue() && c.replaying() {
		c.addPC(inb)
	} else if !inb.IsTrue() {
		c.stats.implicit++
		if bad, v := c.violable(Not(inb)); v {
			c.reportViolation("implicit", fmt.Sprintf("index out of range (len %d)", n), bad)
			if !c.feasible(inb) {
				panic(abortPath{"index always out of range"})
			}
		}
		c.addPC(inb)
	}
	if idx.isC {
		return &Ptr{slot: &elems[idx.cval]}
	}
	allScalar := true
	for _, e := range elems {
		if _, ok := e.(*Term); !ok {
			allScalar = false
			break
		}
	}
	if allScalar {
		return &Ptr{symElems: elems, symIdx: idx}
	}
	k := c.concretize(idx, n)
	return &Ptr{slot: &elems[k]}
}

func (c *Ctx) strIndex(s *Str, idx *Term) Value {
	elems := make([]Value, len(s.b))
	for k, b := range s.b {
		elems[k] = b
	}
	return c.load(c.elemPtr(elems, idx))
}

func (c *Ctx) slice(f *frame, i *ssa.Slice) Value {
	x := c.get(f, i.X)
	var length, capacity int
	switch xv := x.(type) {
	case *Str:
		length, capacity = len(xv.b), len(xv.b)
	case Slice:
		length, capacity = xv.len, xv.cap
	case *Ptr:
		length = len((*xv.slot).(*Arr).e)
		capacity = length
	default:
		c.errf("slice of %T", x)
	}
	lo, hi, mx := 0, length, capacity
	bound := func(v ssa.Value, def int) int {
		if v == nil {
			return def
		}
		t := c.idx64(f, v)
		if t.isC {
			return int(sext(t.cval, t.width))
		}
		// check in range then concretize
		ok := And(Cmp("bvsle", BV(0, t.width), t), Cmp("bvsle", t, BV(uint64(capacity), t.width)))
		c.must(ok, "slice bound out of range")
		return c.concretize(t, capacity+1)
	}
	lo = bound(i.Low, 0)
	hi = bound(i.High, length)
	mx = bound(i.Max, capacity)
	if _, isStr := x.(*Str); isStr {
		mx = length
	}
	if lo < 0 || lo > hi || hi > mx || mx > capacity {
		panic(&goPanic{what: fmt.Sprintf("slice bounds out of range [%d:%d:%d] cap %d", lo, hi, mx, capacity), pos: c.cp()})
	}
	switch xv := x.(type) {
	case *Str:
		return &Str{b: xv.b[lo:hi]}
	case Slice:
		if xv.back == nil {
			return Slice{}
		}
		return Slice{back: xv.back, off: xv.off + lo, len: hi - lo, cap: mx - lo}
	case *Ptr:
		return Slice{back: (*xv.slot).(*Arr), off: lo, len: hi - lo, cap: mx - lo}
	}
	return nil
}
