module gosx

go 1.24.0

toolchain go1.24.1

require golang.org/x/tools v0.29.0

require (
	golang.org/x/mod v0.22.0 // indirect
	golang.org/x/sync v0.10.0 // indirect
)
require github.com/iancoleman/strcase v0.3.0
