package main

import (
	"go/types"
	"reflect"
	"strings"

	"golang.org/x/tools/go/ssa"
)

type extKey struct {
	opts *Value
	ext  *Value
}

func (c *Ctx) extInfoType(e *Ptr) types.Type {
	// ExtensionInfo struct: find field "ExtensionType" (interface holding typed nil)
	st := (*e.slot).(*Struct)
	// locate field index by name through the static type
	pk := c.prog.ImportedPackage("google.golang.org/protobuf/internal/impl")
	named := pk.Type("ExtensionInfo").Type().Underlying().(*types.Struct)
	for i := 0; i < named.NumFields(); i++ {
		if named.Field(i).Name() == "ExtensionType" {
			return st.f[i].(Iface).t
		}
	}
	c.errf("no ExtensionType field")
	return nil
}

func installPB(c *Ctx) {
	in := c.intrinsics
	in["google.golang.org/protobuf/proto.SetExtension"] = func(c *Ctx, a []Value) Value {
		m := a[0].(Iface)
		e := a[1].(Iface).v.(*Ptr)
		val := a[2].(Iface)
		mp, _ := m.v.(*Ptr)
		if m.t == nil || mp == nil {
			panic(&goPanic{what: "proto.SetExtension on nil message", pos: c.cp()})
		}
		want := c.extInfoType(e)
		if val.t == nil || !types.Identical(val.t, want) {
			panic(&goPanic{what: "proto.SetExtension: invalid type: got " + typeStr(val.t) + ", want " + typeStr(want), pos: c.cp()})
		}
		if c.exts == nil {
			c.exts = map[extKey]Value{}
		}
		c.exts[extKey{mp.slot, e.slot}] = val.v
		return nil
	}
	in["google.golang.org/protobuf/proto.GetExtension"] = func(c *Ctx, a []Value) Value {
		m := a[0].(Iface)
		e := a[1].(Iface).v.(*Ptr)
		want := c.extInfoType(e)
		mp, _ := m.v.(*Ptr)
		if mp != nil {
			if v, ok := c.exts[extKey{mp.slot, e.slot}]; ok {
				return Iface{t: want, v: v}
			}
		}
		return Iface{t: want, v: (*Ptr)(nil)}
	}
	in["google.golang.org/protobuf/proto.HasExtension"] = func(c *Ctx, a []Value) Value {
		m := a[0].(Iface)
		e := a[1].(Iface).v.(*Ptr)
		mp, _ := m.v.(*Ptr)
		if mp == nil {
			return Bool(false)
		}
		_, ok := c.exts[extKey{mp.slot, e.slot}]
		return Bool(ok)
	}
	in["google.golang.org/protobuf/proto.ClearExtension"] = func(c *Ctx, a []Value) Value {
		m := a[0].(Iface)
		e := a[1].(Iface).v.(*Ptr)
		if mp, _ := m.v.(*Ptr); mp != nil {
			delete(c.exts, extKey{mp.slot, e.slot})
		}
		return nil
	}
	in["(*github.com/pentops/j5/internal/j5s/j5convert.conversionVisitor).setJ5Ext-spike"] = func(c *Ctx, a []Value) Value {
		ww := a[0].(*Ptr)
		dest := a[2].(*Ptr)
		fieldType := cstr(a[3])
		j5Ext := a[4].(Iface)
		extPkg := c.prog.ImportedPackage("github.com/pentops/j5/gen/j5/ext/v1/ext_j5pb")
		foT := extPkg.Type("FieldOptions").Type()
		fo := zero(foT).(*Struct)
		// find wrapper type by protobuf tag name
		var wrapT types.Type
		var innerPT *types.Pointer
		for name, mem := range extPkg.Members {
			if !strings.HasPrefix(name, "FieldOptions_") {
				continue
			}
			tn, ok := mem.(*ssa.Type)
			if !ok {
				continue
			}
			st, ok := tn.Type().Underlying().(*types.Struct)
			if !ok || st.NumFields() != 1 {
				continue
			}
			tag := reflect.StructTag(st.Tag(0)).Get("protobuf")
			if strings.Contains(","+tag+",", ",name="+fieldType+",") {
				wrapT = tn.Type()
				innerPT = st.Field(0).Type().(*types.Pointer)
			}
		}
		if wrapT == nil {
			c.errf("setJ5Ext model: no wrapper for %q", fieldType)
		}
		innerST := innerPT.Elem().Underlying().(*types.Struct)
		inner := zero(innerPT.Elem()).(*Struct)
		if j5p, _ := j5Ext.v.(*Ptr); j5Ext.t != nil && j5p != nil {
			srcST := j5Ext.t.(*types.Pointer).Elem().Underlying().(*types.Struct)
			src := (*j5p.slot).(*Struct)
			for i := 0; i < innerST.NumFields(); i++ {
				f := innerST.Field(i)
				if !f.Exported() {
					continue
				}
				for j := 0; j < srcST.NumFields(); j++ {
					if srcST.Field(j).Name() == f.Name() {
						inner.f[i] = copyVal(src.f[j])
					}
				}
			}
		}
		innerSlot := new(Value)
		*innerSlot = inner
		wrapSlot := new(Value)
		*wrapSlot = &Struct{f: []Value{&Ptr{slot: innerSlot}}}
		// FieldOptions.Type field
		foST := foT.Underlying().(*types.Struct)
		for i := 0; i < foST.NumFields(); i++ {
			if foST.Field(i).Name() == "Type" {
				fo.f[i] = Iface{t: types.NewPointer(wrapT), v: &Ptr{slot: wrapSlot}}
			}
		}
		foSlot := new(Value)
		*foSlot = fo
		res := &Ptr{slot: foSlot}
		// ww.file.ensureImport(j5ExtImport)
		j5c := c.prog.ImportedPackage("github.com/pentops/j5/internal/j5s/j5convert")
		wwST := j5c.Type("conversionVisitor").Type().Underlying().(*types.Struct)
		for i := 0; i < wwST.NumFields(); i++ {
			if wwST.Field(i).Name() == "file" {
				filePtr := (*ww.slot).(*Struct).f[i]
				ms := c.prog.MethodSets.MethodSet(wwST.Field(i).Type())
				sel := ms.Lookup(j5c.Pkg, "ensureImport")
				c.call(c.prog.MethodValue(sel), []Value{filePtr, strConst("j5/ext/v1/annotations.proto")})
			}
		}
		eField := c.global(extPkg.Var("E_Field"))
		if c.exts == nil {
			c.exts = map[extKey]Value{}
		}
		c.exts[extKey{dest.slot, (*eField).(*Ptr).slot}] = res
		return res
	}
}

func typeStr(t types.Type) string {
	if t == nil {
		return "<nil>"
	}
	return t.String()
}
