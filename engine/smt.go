package main

import (
	"bufio"
	"fmt"
	"io"
	"math/big"
	"os/exec"
	"strconv"
	"strings"
	"time"
)

// Solver wraps one incremental SMT solver process. Scoping discipline:
//
//	level 0: options only
//	level 1: one exploration path: declarations, term definitions and the
//	         path condition are asserted flat here (BeginPath/EndPath)
//	level 2: one query: (push) (assert g) (check-sat) [(get-value ..)] (pop)
//
// Definitions made while a path is open disappear with the path's (pop), so
// the `defined`/`declared` sets are reset at EndPath.
type Solver struct {
	bin      string
	args     []string
	cmd      *exec.Cmd
	in       *bufio.Writer
	inRaw    io.WriteCloser
	out      *bufio.Reader
	defined  map[int]bool
	declared map[string]bool
	inPath   bool
	inQuery  bool

	Queries  int
	Sat      int
	Unsat    int
	Unknown  int
	Time     time.Duration
	MaxQuery time.Duration

	// transcript of the open path (level-1 lines), for cross-checking
	keepTranscript bool
	transcript     []string
}

var solverTimeoutMs = 60000

func NewSolver(bin string, args ...string) *Solver {
	s := &Solver{bin: bin, args: args}
	s.start()
	return s
}

func (s *Solver) start() {
	cmd := exec.Command(s.bin, s.args...)
	in, _ := cmd.StdinPipe()
	out, _ := cmd.StdoutPipe()
	cmd.Stderr = cmd.Stdout
	if err := cmd.Start(); err != nil {
		panic(engineErr{"cannot start solver " + s.bin + ": " + err.Error()})
	}
	s.cmd, s.inRaw, s.in, s.out = cmd, in, bufio.NewWriterSize(in, 1<<16), bufio.NewReaderSize(out, 1<<16)
	s.defined, s.declared = map[int]bool{}, map[string]bool{}
	s.inPath, s.inQuery = false, false
	s.send("(set-option :print-success false)")
	if strings.Contains(s.bin, "z3") {
		s.send(fmt.Sprintf("(set-option :timeout %d)", solverTimeoutMs))
	}
}

func (s *Solver) send(l string) {
	s.in.WriteString(l)
	s.in.WriteByte('\n')
}

func (s *Solver) sendPath(l string) {
	if s.keepTranscript && !s.inQuery {
		s.transcript = append(s.transcript, l)
	}
	s.send(l)
}

func (s *Solver) BeginPath() {
	if s.inPath {
		s.EndPath()
	}
	s.send("(push)")
	s.inPath = true
	s.transcript = s.transcript[:0]
}

func (s *Solver) EndPath() {
	if !s.inPath {
		return
	}
	if s.inQuery {
		s.send("(pop)")
		s.inQuery = false
	}
	s.send("(pop)")
	s.inPath = false
	s.defined = map[int]bool{}
	s.declared = map[string]bool{}
}

// ensure declares/defines t and all its subterms in the open path scope.
func (s *Solver) ensure(t *Term) {
	if t.op == "const" {
		return
	}
	if t.op == "var" {
		if !s.declared[t.name] {
			s.declared[t.name] = true
			s.sendPath(fmt.Sprintf("(declare-const %s %s)", smtName(t.name), sortStr(t.width)))
		}
		return
	}
	if s.defined[t.id] {
		return
	}
	// iterative post-order to avoid deep recursion on long chains
	type fr struct {
		t *Term
		i int
	}
	st := []fr{{t, 0}}
	for len(st) > 0 {
		top := &st[len(st)-1]
		if top.i < len(top.t.args) {
			a := top.t.args[top.i]
			top.i++
			if a.op == "const" {
				continue
			}
			if a.op == "var" {
				if !s.declared[a.name] {
					s.declared[a.name] = true
					s.sendPath(fmt.Sprintf("(declare-const %s %s)", smtName(a.name), sortStr(a.width)))
				}
				continue
			}
			if !s.defined[a.id] {
				st = append(st, fr{a, 0})
			}
			continue
		}
		x := top.t
		st = st[:len(st)-1]
		if s.defined[x.id] {
			continue
		}
		if strings.HasPrefix(x.op, "uf:") && !s.declared[x.op] {
			s.declared[x.op] = true
			s.sendPath(fmt.Sprintf("(declare-fun uf_%s (%s) Bool)", x.op[3:], sortStr(x.args[0].width)))
		}
		s.defined[x.id] = true
		s.sendPath(fmt.Sprintf("(define-fun t!%d () %s %s)", x.id, sortStr(x.width), x.smtDef()))
	}
}

// Assert adds t to the open path's condition.
func (s *Solver) Assert(t *Term) {
	if t.IsTrue() {
		return
	}
	if s.inQuery {
		panic(engineErr{"solver: Assert inside a query"})
	}
	s.ensure(t)
	s.sendPath("(assert " + t.smtAtom() + ")")
}

func (s *Solver) readLine() string {
	s.in.Flush()
	l, err := s.out.ReadString('\n')
	if err != nil {
		panic(engineErr{"solver died: " + err.Error()})
	}
	return strings.TrimSpace(l)
}

// Check decides pathcondition ∧ extra. It leaves the query scope open so that
// Values can be called; the caller must call Done.
func (s *Solver) Check(extra ...*Term) string {
	t0 := time.Now()
	for _, a := range extra {
		s.ensure(a)
	}
	s.send("(push)")
	s.inQuery = true
	for _, a := range extra {
		s.send("(assert " + a.smtAtom() + ")")
	}
	s.send("(check-sat)")
	r := s.readLine()
	d := time.Since(t0)
	s.Queries++
	s.Time += d
	if d > s.MaxQuery {
		s.MaxQuery = d
	}
	switch r {
	case "sat":
		s.Sat++
	case "unsat":
		s.Unsat++
	default:
		s.Unknown++
		if strings.HasPrefix(r, "(error") || !(r == "unknown" || r == "timeout") {
			// drain nothing more; treat as inconclusive
			r = "error: " + r
		} else {
			r = "unknown"
		}
	}
	return r
}

func (s *Solver) Done() {
	if s.inQuery {
		s.send("(pop)")
		s.inQuery = false
	}
}

// Values reads the model value of each term after a sat Check.
func (s *Solver) Values(ts []*Term) []*big.Int {
	res := make([]*big.Int, len(ts))
	for i, v := range ts {
		if v.isC {
			if v.width == IntSort {
				res[i] = v.big()
			} else {
				res[i] = new(big.Int).SetUint64(v.cval)
			}
			continue
		}
		s.send("(get-value (" + v.smtAtom() + "))")
		l := s.readLine()
		// balance parentheses over multiple lines if needed
		for strings.Count(l, "(") > strings.Count(l, ")") {
			l += " " + s.readLine()
		}
		res[i] = parseModelValue(l)
	}
	return res
}

func parseModelValue(l string) *big.Int {
	// ((name value))  where value is #x.., #b.., true, false, N, (- N)
	l = strings.TrimSpace(l)
	if strings.HasPrefix(l, "(error") {
		return nil
	}
	neg := false
	if i := strings.Index(l, "(- "); i >= 0 {
		neg = true
		l = l[:i] + l[i+3:]
	}
	f := strings.Fields(strings.NewReplacer("(", " ", ")", " ").Replace(l))
	if len(f) < 2 {
		return nil
	}
	val := f[len(f)-1]
	out := new(big.Int)
	switch {
	case strings.HasPrefix(val, "#x"):
		out.SetString(val[2:], 16)
	case strings.HasPrefix(val, "#b"):
		out.SetString(val[2:], 2)
	case val == "true":
		out.SetInt64(1)
	case val == "false":
		out.SetInt64(0)
	default:
		if _, err := strconv.ParseFloat(val, 64); err != nil {
			return nil
		}
		if _, ok := out.SetString(val, 10); !ok {
			return nil
		}
	}
	if neg {
		out.Neg(out)
	}
	return out
}

func (s *Solver) Close() {
	defer func() { recover() }()
	s.send("(exit)")
	s.in.Flush()
	s.inRaw.Close()
	done := make(chan struct{})
	go func() { s.cmd.Wait(); close(done) }()
	select {
	case <-done:
	case <-time.After(2 * time.Second):
		s.cmd.Process.Kill()
	}
}

// Restart kills a wedged solver and starts a fresh one (after unknown/timeouts).
func (s *Solver) Restart() {
	func() {
		defer func() { recover() }()
		s.cmd.Process.Kill()
		s.cmd.Wait()
	}()
	s.start()
}

func smtName(n string) string {
	ok := true
	for _, r := range n {
		if !(r == '_' || r == '!' || r == '.' || (r >= '0' && r <= '9') || (r >= 'a' && r <= 'z') || (r >= 'A' && r <= 'Z')) {
			ok = false
		}
	}
	if ok && n != "" && !(n[0] >= '0' && n[0] <= '9') {
		return n
	}
	return "|" + strings.ReplaceAll(n, "|", "_") + "|"
}

// script renders the open path plus one extra assertion as a standalone
// SMT-LIB2 benchmark (used to cross-check a verdict with other solvers).
func (s *Solver) script(extraDefs []string, extra []*Term) string {
	var sb strings.Builder
	for _, l := range s.transcript {
		sb.WriteString(l)
		sb.WriteByte('\n')
	}
	for _, l := range extraDefs {
		sb.WriteString(l)
		sb.WriteByte('\n')
	}
	for _, a := range extra {
		sb.WriteString("(assert " + a.smtAtom() + ")\n")
	}
	sb.WriteString("(check-sat)\n")
	return sb.String()
}
