package main

import (
	"go/constant"
	"go/token"
	"go/types"
	"reflect"
	"sort"
	"strconv"
	"strings"
	"sync"
)

// pb-lite: a minimal protoreflect.Message view over *generated Go structs*,
// driven by their `protobuf:"…"` struct tags. It models proto3 presence
// (scalar set ⇔ non-zero, message set ⇔ non-nil pointer, oneof set ⇔ non-nil
// wrapper) and supports the operations j5 performs on well-known/generated
// messages: Range, Has, Get, Set, Clear, Descriptor().Fields().By…, Interface.
var pbMsgType = types.NewNamed(types.NewTypeName(token.NoPos, nil, "engine.pbMsg", nil), types.NewStruct(nil, nil), nil)
var pbFDType = types.NewNamed(types.NewTypeName(token.NoPos, nil, "engine.pbFD", nil), types.NewStruct(nil, nil), nil)
var pbOpaqueType = types.NewNamed(types.NewTypeName(token.NoPos, nil, "engine.pbOpaque", nil), types.NewStruct(nil, nil), nil)

// pbOpaque: a protoreflect.List / Map of a struct-view message; only its
// existence is modelled, any method call is reported as unmodelled.
type pbOpaque struct{ what string }

var pbMDType = types.NewNamed(types.NewTypeName(token.NoPos, nil, "engine.pbMD", nil), types.NewStruct(nil, nil), nil)
var pbFDsType = types.NewNamed(types.NewTypeName(token.NoPos, nil, "engine.pbFDs", nil), types.NewStruct(nil, nil), nil)

type pbMsg struct {
	p  *Ptr
	st *types.Struct
	pt types.Type // *T
}
type pbFD struct {
	name   string
	number int
	kind   int // protoreflect.Kind
	idx    int // struct field index (−1 for oneof members)
	st     *types.Struct
	wrap   types.Type // oneof member: the wrapper pointer type
	oneof  int        // struct field index of the oneof interface field, or −1
	list   bool
	isMap  bool
	mapKV  *[2]pbFD // map field: the key and value descriptors
}
type pbMD struct {
	st *types.Struct
	pt types.Type
}
type pbFDs struct{ fds []pbFD }

// pbList: the protoreflect.List view of a repeated field of a struct-view
// message (read-only: Len, Get, IsValid)
type pbList struct {
	fd pbFD // the element's field descriptor (list = false)
	sl Slice
	et types.Type
}

// pbMap: the protoreflect.Map view of a map field (read-only: Len, Range, Has,
// Get, IsValid); Range visits the entries in an order the engine chooses
// freely (every permutation within engine.maporder), as protobuf-go documents
type pbMap struct {
	fd pbFD
	m  *Map
	mt *types.Map
}

// one key/value descriptor pair per map field, so two descriptors of the same
// field compare equal
var pbMapKVMu sync.Mutex
var pbMapKVs = map[*types.Struct]map[int]*[2]pbFD{}

func pbMapKV(st *types.Struct, i int, mk func() *[2]pbFD) *[2]pbFD {
	pbMapKVMu.Lock()
	defer pbMapKVMu.Unlock()
	if pbMapKVs[st] == nil {
		pbMapKVs[st] = map[int]*[2]pbFD{}
	}
	if pbMapKVs[st][i] == nil {
		pbMapKVs[st][i] = mk()
	}
	return pbMapKVs[st][i]
}

var pbMapType = types.NewNamed(types.NewTypeName(token.NoPos, nil, "engine.pbMap", nil), types.NewStruct(nil, nil), nil)

// pbED / pbEVs / pbEV: the enum descriptor of an enum-typed field, its values
// and one value; names and numbers come from the generated constants
type pbED struct{ named *types.Named }
type pbEVs struct{ vals []pbEV }
type pbEV struct {
	name   string
	number int64
}

var pbListType = types.NewNamed(types.NewTypeName(token.NoPos, nil, "engine.pbList", nil), types.NewStruct(nil, nil), nil)
var pbEDType = types.NewNamed(types.NewTypeName(token.NoPos, nil, "engine.pbED", nil), types.NewStruct(nil, nil), nil)
var pbEVsType = types.NewNamed(types.NewTypeName(token.NoPos, nil, "engine.pbEVs", nil), types.NewStruct(nil, nil), nil)
var pbEVType = types.NewNamed(types.NewTypeName(token.NoPos, nil, "engine.pbEV", nil), types.NewStruct(nil, nil), nil)

func isEngineType(t types.Type) bool {
	return t == types.Type(pbMsgType) || t == types.Type(pbFDType) || t == types.Type(pbMDType) || t == types.Type(pbFDsType) ||
		t == types.Type(pbListType) || t == types.Type(pbMapType) || t == types.Type(pbEDType) || t == types.Type(pbEVsType) || t == types.Type(pbEVType)
}

// pbFieldGoType: the Go type of the field's storage (the struct field, or the
// only field of the oneof wrapper)
func pbFieldGoType(r pbFD) types.Type {
	if r.idx >= 0 {
		return r.st.Field(r.idx).Type()
	}
	if wp, ok := r.wrap.(*types.Pointer); ok {
		if ws, ok := wp.Elem().Underlying().(*types.Struct); ok && ws.NumFields() > 0 {
			return ws.Field(0).Type()
		}
	}
	return nil
}

// pbEnumValues: the generated constants of an enum type, in declaration
// (source) order. protoc-gen-go names them <Prefix>_<VALUE> where the prefix is
// the enum's Go name for a top-level enum and the parent message's Go name for
// a nested one.
func (c *Ctx) pbEnumValues(named *types.Named) []pbEV {
	scope := named.Obj().Pkg().Scope()
	tn := named.Obj().Name()
	prefix := tn + "_"
	type cv struct {
		ev  pbEV
		pos token.Pos
	}
	var found []cv
	for _, n := range scope.Names() {
		k, ok := scope.Lookup(n).(*types.Const)
		if !ok || !types.Identical(k.Type(), named) {
			continue
		}
		// only the constants protoc-gen-go wrote next to the type (other
		// generators add aliases in files of their own)
		if c.prog.Fset.File(k.Pos()) != c.prog.Fset.File(named.Obj().Pos()) {
			continue
		}
		num, _ := constant.Int64Val(k.Val())
		name := n
		switch {
		case strings.HasPrefix(n, prefix):
			name = n[len(prefix):]
		case strings.LastIndex(tn, "_") >= 0 && strings.HasPrefix(n, tn[:strings.LastIndex(tn, "_")+1]):
			name = n[strings.LastIndex(tn, "_")+1:]
		default:
			c.errf("pb-lite: enum constant %s of %s has no recognisable prefix", n, tn)
		}
		found = append(found, cv{pbEV{name: name, number: num}, k.Pos()})
	}
	sort.Slice(found, func(i, j int) bool { return found[i].pos < found[j].pos })
	out := make([]pbEV, len(found))
	for i, f := range found {
		out[i] = f.ev
	}
	return out
}

func (c *Ctx) pbMapOf(fd pbFD, raw Value, ft types.Type) Value {
	m, _ := raw.(*Map)
	mt, ok := ft.Underlying().(*types.Map)
	if !ok {
		c.errf("pb-lite: map field %s stored as %s", fd.name, ft)
	}
	return c.mkPV("map", Iface{t: pbMapType, v: pbMap{fd: fd, m: m, mt: mt}})
}

func (c *Ctx) pbListOf(fd pbFD, raw Value, ft types.Type) Value {
	sl, _ := raw.(Slice)
	st, ok := ft.Underlying().(*types.Slice)
	if !ok {
		c.errf("pb-lite: repeated field %s stored as %s", fd.name, ft)
	}
	efd := fd
	efd.list = false
	return c.mkPV("list", Iface{t: pbListType, v: pbList{fd: efd, sl: sl, et: st.Elem()}})
}

func protoTag(tag string) (wire string, number int, name string, ok bool) {
	pt := reflect.StructTag(tag).Get("protobuf")
	if pt == "" {
		return
	}
	parts := strings.Split(pt, ",")
	if len(parts) < 2 {
		return
	}
	wire = parts[0]
	number, _ = strconv.Atoi(parts[1])
	for _, p := range parts[2:] {
		if strings.HasPrefix(p, "name=") {
			name = p[5:]
		}
	}
	return wire, number, name, true
}

func protoName(tag string) string {
	_, _, n, _ := protoTag(tag)
	return n
}

func pbKind(wire string, t types.Type) int {
	if _, ok := t.Underlying().(*types.Slice); ok && wire != "bytes" {
		t = t.Underlying().(*types.Slice).Elem()
	}
	if p, ok := t.(*types.Pointer); ok {
		if _, isStruct := p.Elem().Underlying().(*types.Struct); isStruct {
			return 11
		}
		t = p.Elem() // proto3 optional scalar
	}
	if sl, ok := t.Underlying().(*types.Slice); ok {
		if b, ok := sl.Elem().Underlying().(*types.Basic); ok && b.Kind() == types.Uint8 {
			return 12
		}
		return pbKind(wire, sl.Elem())
	}
	b, ok := t.Underlying().(*types.Basic)
	if !ok {
		return 11
	}
	switch b.Kind() {
	case types.Bool:
		return 8
	case types.String:
		return 9
	case types.Float32:
		return 2
	case types.Float64:
		return 1
	case types.Int32:
		if _, named := t.(*types.Named); named {
			return 14 // enum
		}
		switch wire {
		case "zigzag32":
			return 17
		case "fixed32":
			return 15
		}
		return 5
	case types.Int64:
		switch wire {
		case "zigzag64":
			return 18
		case "fixed64":
			return 16
		}
		return 3
	case types.Uint32:
		if wire == "fixed32" {
			return 7
		}
		return 13
	case types.Uint64:
		if wire == "fixed64" {
			return 6
		}
		return 4
	}
	return 11
}

// pbFields lists the proto fields of a generated struct, including the members
// of its oneofs (found through the generated XXX_OneofWrappers-free layout: an
// interface-typed field whose implementing wrapper types live in the same package).
func (c *Ctx) pbFields(st *types.Struct, pt types.Type) []pbFD {
	var out []pbFD
	for i := 0; i < st.NumFields(); i++ {
		f := st.Field(i)
		if !f.Exported() {
			continue
		}
		if wire, num, name, ok := protoTag(st.Tag(i)); ok {
			if mt, ok := f.Type().Underlying().(*types.Map); ok {
				// map<K, V>: key and value descriptors from protobuf_key / protobuf_val
				kw, _, _, _ := protoTag(`protobuf:"` + reflect.StructTag(st.Tag(i)).Get("protobuf_key") + `"`)
				vw, _, _, _ := protoTag(`protobuf:"` + reflect.StructTag(st.Tag(i)).Get("protobuf_val") + `"`)
				kv := pbMapKV(st, i, func() *[2]pbFD {
					return &[2]pbFD{
						{name: "key", number: 1, kind: pbKind(kw, mt.Key()), idx: -2, oneof: -1},
						{name: "value", number: 2, kind: pbKind(vw, mt.Elem()), idx: -2, oneof: -1},
					}
				})
				out = append(out, pbFD{name: name, number: num, kind: 11, idx: i, st: st, oneof: -1, isMap: true, mapKV: kv})
				continue
			}
			_, isSlice := f.Type().Underlying().(*types.Slice)
			kind := pbKind(wire, f.Type())
			out = append(out, pbFD{name: name, number: num, kind: kind, idx: i, st: st, oneof: -1, list: isSlice && kind != 12})
			continue
		}
		if it, ok := f.Type().Underlying().(*types.Interface); ok && reflect.StructTag(st.Tag(i)).Get("protobuf_oneof") != "" {
			// members: pointer-to-struct types of the same package implementing the interface
			named, _ := f.Type().(*types.Named)
			if named == nil || named.Obj().Pkg() == nil {
				continue
			}
			scope := named.Obj().Pkg().Scope()
			for _, n := range scope.Names() {
				tn, ok := scope.Lookup(n).(*types.TypeName)
				if !ok {
					continue
				}
				wst, ok := tn.Type().Underlying().(*types.Struct)
				if !ok || wst.NumFields() != 1 {
					continue
				}
				wp := types.NewPointer(tn.Type())
				if !types.Implements(wp, it) {
					continue
				}
				wire, num, name, ok := protoTag(wst.Tag(0))
				if !ok {
					continue
				}
				out = append(out, pbFD{name: name, number: num, kind: pbKind(wire, wst.Field(0).Type()), idx: -1, st: st, wrap: wp, oneof: i})
			}
		}
	}
	return out
}

func (c *Ctx) pbFieldValue(fd pbFD, raw Value, ft types.Type) Value {
	// explicit-presence scalars are *T in generated code (proto2 / optional)
	if p, ok := raw.(*Ptr); ok && fd.kind != 11 {
		if pt, isPtr := ft.(*types.Pointer); isPtr {
			if p == nil {
				raw = zero(pt.Elem())
			} else {
				raw = *p.slot
			}
			ft = pt.Elem()
		}
	}
	switch fd.kind {
	case 8:
		return c.mkPV("bool", raw)
	case 9:
		return c.mkPV("string", raw)
	case 12:
		return c.mkPV("bytes", raw)
	case 5, 17, 15:
		return c.mkPV("int32", raw)
	case 3, 18, 16:
		return c.mkPV("int64", raw)
	case 13, 7:
		return c.mkPV("uint32", raw)
	case 4, 6:
		return c.mkPV("uint64", raw)
	case 2:
		return c.mkPV("float32", raw)
	case 1:
		return c.mkPV("float64", raw)
	case 14:
		return c.mkPV("enum", raw)
	case 11:
		p, _ := raw.(*Ptr)
		pt, _ := ft.(*types.Pointer)
		if pt == nil {
			c.errf("pb-lite: message field of type %s", ft)
		}
		st, _ := pt.Elem().Underlying().(*types.Struct)
		return c.mkPV("message", Iface{t: pbMsgType, v: pbMsg{p: p, st: st, pt: pt}})
	}
	c.errf("pb-lite: field kind %d", fd.kind)
	return nil
}

// isZeroTerm: proto3 presence of a scalar
func (c *Ctx) pbIsSet(fd pbFD, raw Value) *Term {
	switch v := raw.(type) {
	case *Term:
		if v.width == 0 {
			return v
		}
		return Not(Cmp("=", v, zeroLike(v)))
	case *Str:
		return Bool(len(v.b) > 0)
	case Slice:
		return Bool(v.len > 0)
	case *Ptr:
		return Bool(v != nil)
	case *Map:
		return Bool(v != nil && len(v.keys) > 0)
	case Iface:
		return Bool(v.t != nil)
	case Opaque:
		return Bool(v.tag != "float0")
	}
	c.errf("pb-lite: presence of %T", raw)
	return nil
}

func (c *Ctx) pbRaw(m pbMsg, fd pbFD) (Value, types.Type, bool) {
	sv := (*m.p.slot).(*Struct)
	if fd.idx >= 0 {
		return sv.f[fd.idx], m.st.Field(fd.idx).Type(), true
	}
	ifc := sv.f[fd.oneof].(Iface)
	if ifc.t == nil || !types.Identical(ifc.t, fd.wrap) {
		return nil, nil, false
	}
	wp := ifc.v.(*Ptr)
	wst := fd.wrap.(*types.Pointer).Elem().Underlying().(*types.Struct)
	return (*wp.slot).(*Struct).f[0], wst.Field(0).Type(), true
}

// pbCheckField: protobuf-go panics ("mismatching field") when a field
// descriptor of another message type is used on a message.
func (c *Ctx) pbCheckField(m pbMsg, fd pbFD) {
	if fd.st != m.st {
		panic(&goPanic{what: "protoreflect: mismatching field: descriptor " + fd.name + " belongs to a different message type", pos: c.cp()})
	}
}

func (c *Ctx) pbFDIface(fd pbFD) Value { return Iface{t: pbFDType, v: fd} }

// engineInvoke handles interface method calls on engine-native objects
func (c *Ctx) engineInvoke(recv Iface, method string, args []Value) (Value, bool) {
	switch r := recv.v.(type) {
	case pbMsg:
		switch method {
		case "IsValid":
			return Bool(r.p != nil), true
		case "Interface":
			return Iface{t: r.pt, v: r.p}, true
		case "ProtoReflect":
			return recv, true
		case "GetUnknown":
			return Slice{}, true // struct-view messages carry no unknown fields
		case "Descriptor":
			return Iface{t: pbMDType, v: pbMD{st: r.st, pt: r.pt}}, true
		case "Type":
			return Iface{t: pbMDType, v: pbMD{st: r.st, pt: r.pt}}, true
		case "Range":
			cb := args[0]
			if r.p == nil {
				return nil, true
			}
			for _, fd := range c.pbFields(r.st, r.pt) {
				raw, ft, present := c.pbRaw(r, fd)
				if !present {
					continue
				}
				if fd.isMap {
					if m, _ := raw.(*Map); m == nil || len(m.keys) == 0 {
						continue
					}
					keep := c.invoke(cb, []Value{c.pbFDIface(fd), c.pbMapOf(fd, raw, ft)}).(*Term)
					if !c.branch(keep) {
						return nil, true
					}
					continue
				}
				if fd.list {
					if sl, ok := raw.(Slice); ok && sl.len == 0 {
						continue
					}
					keep := c.invoke(cb, []Value{c.pbFDIface(fd), c.pbListOf(fd, raw, ft)}).(*Term)
					if !c.branch(keep) {
						return nil, true
					}
					continue
				}
				if fd.idx >= 0 {
					if !c.branch(c.pbIsSet(fd, raw)) {
						continue
					}
				}
				keep := c.invoke(cb, []Value{c.pbFDIface(fd), c.pbFieldValue(fd, raw, ft)}).(*Term)
				if !c.branch(keep) {
					return nil, true
				}
			}
			return nil, true
		case "Mutable", "NewField":
			fd := args[0].(Iface).v.(pbFD)
			c.pbCheckField(r, fd)
			if fd.kind != 11 || fd.list || fd.isMap {
				c.errf("pb-lite %s: only singular message fields are modelled (field %s)", method, fd.name)
			}
			if r.p == nil {
				panic(&goPanic{what: "protoreflect: Mutable on read-only (nil) message", pos: c.cp()})
			}
			raw, ft, present := c.pbRaw(r, fd)
			if present {
				if p, _ := raw.(*Ptr); p != nil {
					return c.pbFieldValue(fd, raw, ft), true
				}
			}
			if ft == nil {
				ft = fd.wrap.(*types.Pointer).Elem().Underlying().(*types.Struct).Field(0).Type()
			}
			ns := new(Value)
			*ns = zero(ft.(*types.Pointer).Elem())
			np := &Ptr{slot: ns}
			sv := (*r.p.slot).(*Struct)
			if method == "Mutable" {
				if fd.idx >= 0 {
					sv.f[fd.idx] = np
				} else {
					ws := new(Value)
					*ws = &Struct{f: []Value{np}}
					sv.f[fd.oneof] = Iface{t: fd.wrap, v: &Ptr{slot: ws}}
				}
			}
			return c.pbFieldValue(fd, np, ft), true
		case "Has":
			fd := args[0].(Iface).v.(pbFD)
			c.pbCheckField(r, fd)
			if r.p == nil {
				return Bool(false), true
			}
			raw, _, present := c.pbRaw(r, fd)
			if !present {
				return Bool(false), true
			}
			if fd.idx < 0 {
				return Bool(true), true
			}
			return c.pbIsSet(fd, raw), true
		case "Get":
			fd := args[0].(Iface).v.(pbFD)
			c.pbCheckField(r, fd)
			if r.p == nil {
				c.errf("pb-lite Get on nil message")
			}
			raw, ft, present := c.pbRaw(r, fd)
			if !present {
				wst := fd.wrap.(*types.Pointer).Elem().Underlying().(*types.Struct)
				return c.pbFieldValue(fd, zero(wst.Field(0).Type()), wst.Field(0).Type()), true
			}
			if fd.list {
				return c.pbListOf(fd, raw, ft), true
			}
			if fd.isMap {
				return c.pbMapOf(fd, raw, ft), true
			}
			return c.pbFieldValue(fd, raw, ft), true
		case "Set":
			fd := args[0].(Iface).v.(pbFD)
			c.pbCheckField(r, fd)
			if r.p == nil {
				panic(&goPanic{what: "protoreflect: Set on read-only (nil) message", pos: c.cp()})
			}
			t, ok := pvOf(args[1])
			if !ok {
				panic(&goPanic{what: "protoreflect: Set with invalid Value for field " + fd.name, pos: c.cp()})
			}
			var raw Value = t.v
			if t.kind == "message" {
				mi := t.v.(Iface)
				pm, ok := mi.v.(pbMsg)
				if !ok {
					c.errf("pb-lite Set: foreign message implementation %s", mi.t)
				}
				raw = pm.p
			}
			if !pbKindAccepts(fd.kind, t.kind) {
				panic(&goPanic{what: "protoreflect: Set field " + fd.name + ": invalid type: got " + t.kind, pos: c.cp()})
			}
			sv := (*r.p.slot).(*Struct)
			if fd.idx >= 0 {
				sv.f[fd.idx] = raw
				return nil, true
			}
			ws := new(Value)
			*ws = &Struct{f: []Value{raw}}
			sv.f[fd.oneof] = Iface{t: fd.wrap, v: &Ptr{slot: ws}}
			return nil, true
		case "Clear":
			fd := args[0].(Iface).v.(pbFD)
			c.pbCheckField(r, fd)
			if r.p == nil {
				panic(&goPanic{what: "protoreflect: Clear on read-only (nil) message", pos: c.cp()})
			}
			sv := (*r.p.slot).(*Struct)
			if fd.idx >= 0 {
				sv.f[fd.idx] = zero(r.st.Field(fd.idx).Type())
			} else if ifc := sv.f[fd.oneof].(Iface); ifc.t != nil && types.Identical(ifc.t, fd.wrap) {
				sv.f[fd.oneof] = Iface{}
			}
			return nil, true
		}
	case pbMD:
		switch method {
		case "Fields":
			return Iface{t: pbFDsType, v: pbFDs{c.pbFields(r.st, r.pt)}}, true
		case "FullName", "Name":
			n := "unknown"
			if p, ok := r.pt.(*types.Pointer); ok {
				if nm, ok := p.Elem().(*types.Named); ok {
					n = nm.Obj().Name()
				}
			}
			return strConst(n), true
		case "Descriptor":
			return recv, true
		}
	case pbFDs:
		switch method {
		case "Len":
			return BV(uint64(len(r.fds)), 64), true
		case "Get":
			i := c.concretize(args[0].(*Term), len(r.fds))
			return c.pbFDIface(r.fds[i]), true
		case "ByNumber":
			n := args[0].(*Term)
			for _, fd := range r.fds {
				if c.branch(Cmp("=", n, BV(uint64(fd.number), n.width))) {
					return c.pbFDIface(fd), true
				}
			}
			return Iface{}, true
		case "ByName", "ByJSONName", "ByTextName":
			name := args[0].(*Str)
			for _, fd := range r.fds {
				if c.branch(c.strEq(name, strConst(fd.name))) {
					return c.pbFDIface(fd), true
				}
			}
			return Iface{}, true
		}
	case pbOpaque:
		c.errf("pb-lite: %s: method %s not modelled", r.what, method)
	case pbList:
		switch method {
		case "IsValid":
			return Bool(true), true
		case "Len":
			return BV(uint64(r.sl.len), 64), true
		case "Get":
			i := c.concretize(args[0].(*Term), r.sl.len)
			return c.pbFieldValue(r.fd, r.sl.back.e[r.sl.off+i], r.et), true
		}
	case pbMap:
		n := 0
		if r.m != nil {
			n = len(r.m.keys)
		}
		switch method {
		case "IsValid":
			return Bool(true), true
		case "Len":
			return BV(uint64(n), 64), true
		case "Range":
			cb := args[0]
			rest := make([]int, n)
			for k := range rest {
				rest[k] = k
			}
			symbolic := n > 1 && n <= c.mapOrderMax
			for len(rest) > 0 {
				pick := 0
				if symbolic && len(rest) > 1 {
					pick = c.chooseFree(len(rest))
				}
				idx := rest[pick]
				rest = append(append([]int{}, rest[:pick]...), rest[pick+1:]...)
				k := c.pbFieldValue(r.fd.mapKV[0], r.m.keys[idx], r.mt.Key())
				v := c.pbFieldValue(r.fd.mapKV[1], r.m.vals[idx], r.mt.Elem())
				keep := c.invoke(cb, []Value{k, v}).(*Term)
				if !c.branch(keep) {
					return nil, true
				}
			}
			return nil, true
		}
	case pbED:
		switch method {
		case "Values":
			return Iface{t: pbEVsType, v: pbEVs{c.pbEnumValues(r.named)}}, true
		case "Name", "FullName":
			return strConst(r.named.Obj().Name()), true
		}
	case pbEVs:
		switch method {
		case "Len":
			return BV(uint64(len(r.vals)), 64), true
		case "Get":
			i := c.concretize(args[0].(*Term), len(r.vals))
			return Iface{t: pbEVType, v: r.vals[i]}, true
		case "ByNumber":
			n := args[0].(*Term)
			for _, ev := range r.vals {
				if c.branch(Cmp("=", n, BV(uint64(ev.number), n.width))) {
					return Iface{t: pbEVType, v: ev}, true
				}
			}
			return Iface{}, true
		case "ByName":
			name := args[0].(*Str)
			for _, ev := range r.vals {
				if c.branch(c.strEq(name, strConst(ev.name))) {
					return Iface{t: pbEVType, v: ev}, true
				}
			}
			return Iface{}, true
		}
	case pbEV:
		switch method {
		case "Name", "FullName":
			return strConst(r.name), true
		case "Number":
			return BV(uint64(r.number), 32), true
		}
	case pbFD:
		switch method {
		case "Name", "FullName", "JSONName", "TextName":
			return strConst(r.name), true
		case "Number":
			return BV(uint64(r.number), 32), true
		case "Kind":
			return BV(uint64(r.kind), 8), true
		case "IsList":
			return Bool(r.list), true
		case "IsMap":
			return Bool(r.isMap), true
		case "MapKey":
			if !r.isMap {
				return Iface{}, true
			}
			return c.pbFDIface(r.mapKV[0]), true
		case "MapValue":
			if !r.isMap {
				return Iface{}, true
			}
			return c.pbFDIface(r.mapKV[1]), true
		case "HasPresence":
			return Bool(r.kind == 11 || r.idx < 0), true
		case "ContainingOneof":
			return Iface{}, true
		case "Enum":
			if r.kind != 14 {
				return Iface{}, true
			}
			et := pbFieldGoType(r)
			if sl, ok := et.(*types.Slice); ok {
				et = sl.Elem()
			}
			if pt, ok := et.(*types.Pointer); ok {
				et = pt.Elem()
			}
			if named, ok := et.(*types.Named); ok && named.Obj().Pkg() != nil {
				return Iface{t: pbEDType, v: pbED{named}}, true
			}
			c.errf("pb-lite: enum type of field %s", r.name)
		case "Message":
			if r.kind != 11 {
				return Iface{}, true
			}
			// the Go type of the field (or of the oneof wrapper's only field) is *T or []*T
			var ft types.Type
			if r.idx >= 0 {
				ft = r.st.Field(r.idx).Type()
			} else if wp, ok := r.wrap.(*types.Pointer); ok {
				if ws, ok := wp.Elem().Underlying().(*types.Struct); ok && ws.NumFields() > 0 {
					ft = ws.Field(0).Type()
				}
			}
			if sl, ok := ft.(*types.Slice); ok {
				ft = sl.Elem()
			}
			if pt, ok := ft.(*types.Pointer); ok {
				if st, ok := pt.Elem().Underlying().(*types.Struct); ok {
					return Iface{t: pbMDType, v: pbMD{st: st, pt: pt}}, true
				}
			}
			c.errf("pb-lite: message type of field %s", r.name)
		}
	}
	return nil, false
}

func pbKindAccepts(fk int, vk string) bool {
	switch fk {
	case 8:
		return vk == "bool"
	case 9:
		return vk == "string"
	case 12:
		return vk == "bytes"
	case 5, 17, 15:
		return vk == "int32"
	case 3, 18, 16:
		return vk == "int64"
	case 13, 7:
		return vk == "uint32"
	case 4, 6:
		return vk == "uint64"
	case 2:
		return vk == "float32"
	case 1:
		return vk == "float64"
	case 14:
		return vk == "enum"
	case 11:
		return vk == "message"
	}
	return false
}
