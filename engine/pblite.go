package main

import (
	"go/token"
	"go/types"
	"reflect"
	"strings"
)

// engine-native dynamic types for a tiny ProtoReflect model
var pbMsgType = types.NewNamed(types.NewTypeName(token.NoPos, nil, "engine.pbMsg", nil), types.NewStruct(nil, nil), nil)
var pbFDType = types.NewNamed(types.NewTypeName(token.NoPos, nil, "engine.pbFD", nil), types.NewStruct(nil, nil), nil)

type pbMsg struct {
	p  *Ptr
	st *types.Struct
}
type pbFD struct{ name string }

func protoName(tag string) string {
	for _, part := range strings.Split(reflect.StructTag(tag).Get("protobuf"), ",") {
		if strings.HasPrefix(part, "name=") {
			return part[5:]
		}
	}
	return ""
}

// engineInvoke handles interface method calls on engine-native objects
func (c *Ctx) engineInvoke(recv Iface, method string, args []Value) (Value, bool) {
	switch r := recv.v.(type) {
	case pbMsg:
		switch method {
		case "IsValid":
			return Bool(r.p != nil), true
		case "Range":
			cb := args[0]
			if r.p == nil {
				return nil, true
			}
			sv := (*r.p.slot).(*Struct)
			for i := 0; i < r.st.NumFields(); i++ {
				f := r.st.Field(i)
				if !f.Exported() {
					continue
				}
				fv := sv.f[i]
				// oneof wrapper field: interface holding pointer to 1-field struct
				if ifc, ok := fv.(Iface); ok {
					if ifc.t == nil {
						continue
					}
					wst := ifc.t.(*types.Pointer).Elem().Underlying().(*types.Struct)
					name := protoName(wst.Tag(0))
					keep := c.invoke(cb, []Value{Iface{t: pbFDType, v: pbFD{name}}, Opaque{"pbvalue"}}).(*Term)
					if keep.IsFalse() {
						return nil, true
					}
					continue
				}
				c.errf("pb-lite Range: non-oneof field %s not modelled", f.Name())
			}
			return nil, true
		}
	case pbFD:
		switch method {
		case "Name", "FullName", "JSONName":
			return strConst(r.name), true
		}
	}
	return nil, false
}

func installPBLite(c *Ctx) {
	// every generated (*T).ProtoReflect is recognised by name in call()
}
