package main

import (
	"fmt"
	"go/token"
	"math/big"
	"regexp"
	"sort"
	"strings"

	"golang.org/x/tools/go/ssa"
)

type engineCall func() Value

type goPanic struct {
	val  Value
	what string
	pos  string
}

type abortPath struct{ why string } // assume failed / infeasible / inconclusive
type engineErr struct{ msg string }

type ndRec struct {
	Name string
	Kind string // byte, rune, int32, int64, bool, range, byteint, choice
	t    *Term
}

// NdVal is one entry of a replay vector.
type NdVal struct {
	Name  string `json:"name"`
	Kind  string `json:"kind"`
	Value string `json:"value"` // decimal, two's complement already resolved to signed where the kind is signed
}

type Violation struct {
	Kind     string  `json:"kind"` // assert, implicit, panic, race, deadlock, unwind
	Label    string  `json:"label"`
	Pos      string  `json:"pos"`
	Prefix   []int   `json:"prefix"`
	Vector   []NdVal `json:"vector"`
	Stack    string  `json:"stack,omitempty"`
	Harness  string  `json:"harness"`
	Known    string  `json:"known,omitempty"` // id of the known-finding class it falls in
	Replayed string  `json:"replayed,omitempty"`
}

func (v *Violation) key() string { return v.Kind + "|" + v.Label + "|" + v.Pos }

type kfClass struct {
	id   string
	cond *Term
}

type Ctx struct {
	modelOf   *Term      // formula of the last sat violation check
	modelVals []*big.Int // its model, per ndTrace entry
	ex        *Explorer
	prog      *ssa.Program
	solver    *Solver
	pc        []*Term
	prefix    []int
	decis     []int
	// new prefixes discovered by this path
	pending [][]int

	globals           map[*ssa.Global]*Value
	inited            map[*ssa.Package]bool
	ndSeq             map[string]int
	ndTrace           []ndRec
	steps             int
	depth             int
	stepMax, depthMax int
	curTok            token.Pos
	posOverride       string
	stack             []*ssa.Function
	fnInfos           map[*ssa.Function]*fnInfo

	intrinsics map[string]func(c *Ctx, args []Value) Value
	stats      pathStats
	funcs      map[*ssa.Function]int

	explicitInit      bool
	exts              map[extKey]Value
	curCallee         *ssa.Function
	sched             *schedState
	bigs              map[*Value]*bigState
	freshSeq          int
	eqMemo            map[*Term]*Term
	srcMemo           map[*Term][]*Term
	numMemo           map[string]numInfo
	syncMaps          map[*Value]*Map
	pools             map[*Value][]pooled
	mapOrderMax       int
	noTrack           int
	preemptEverywhere bool
	maxPreempt        int
	bypass            bool

	kf         []kfClass
	viols      []*Violation
	incomplete []string
	reach      map[string]int
	harness    string
	canary     bool
	termBudget int // >0: exceeding this many steps is a termination violation, not an engine limit
	extra      map[string]interface{}
}

type pathStats struct {
	choice, asserts, implicit, assumeDrops int
}

func (c *Ctx) errf(f string, a ...interface{}) {
	panic(engineErr{fmt.Sprintf(f, a...) + " at " + c.cp() + "\n  stack: " + strings.Join(c.stackNames(12), "\n         ")})
}

func (c *Ctx) checkTaint(t *Term) {
	if t.taint {
		c.errf("a branch/assumption/assertion depends on opaque (unmodelled) text")
	}
}

func (c *Ctx) addPC(t *Term) {
	if t.IsTrue() {
		return
	}
	c.checkTaint(t)
	c.pc = append(c.pc, t)
	c.solver.Assert(t)
}

func (c *Ctx) inconclusive(why string) {
	c.incomplete = append(c.incomplete, why+" at "+c.cp())
	panic(abortPath{"inconclusive: " + why})
}

// feasible decides pc ∧ t.
func (c *Ctx) feasible(t *Term) bool {
	if t.IsTrue() {
		return true
	}
	if t.IsFalse() {
		return false
	}
	c.checkTaint(t)
	r := c.solver.Check(t)
	c.solver.Done()
	switch r {
	case "sat":
		return true
	case "unsat":
		return false
	}
	if strings.HasPrefix(r, "error") {
		c.solver.Restart()
		c.errf("solver %s", r)
	}
	c.inconclusive("solver " + r)
	return false
}

// violable decides pc ∧ bad for an assertion or implicit check. When the solver
// gives up (unknown), it probes: a few models of the path condition alone are
// taken, the inputs are pinned to each, and pc ∧ bad is re-asked — with the
// inputs fixed the query is an evaluation. A witness found this way is a
// genuine counterexample (it is replayed natively like any other); when no
// witness is found the query stays inconclusive and the run is incomplete.
// Returns the (possibly strengthened) violated condition.
func (c *Ctx) violable(bad *Term) (*Term, bool) {
	if bad.IsFalse() {
		return bad, false
	}
	c.checkTaint(bad)
	r := "sat"
	c.modelOf, c.modelVals = nil, nil
	if !bad.IsTrue() {
		r = c.solver.Check(bad)
		if r == "sat" {
			// keep this model: asking again for the same formula can time out
			// (hard integer problems are not solved equally fast twice)
			ts := make([]*Term, len(c.ndTrace))
			for i, n := range c.ndTrace {
				ts[i] = n.t
			}
			c.modelOf, c.modelVals = bad, c.solver.Values(ts)
		}
		c.solver.Done()
	}
	switch r {
	case "sat":
		return bad, true
	case "unsat":
		return bad, false
	}
	if strings.HasPrefix(r, "error") {
		c.solver.Restart()
		c.errf("solver %s", r)
	}
	var blocks []*Term
	for try := 0; try < 6; try++ {
		if c.solver.Check(blocks...) != "sat" {
			c.solver.Done()
			break
		}
		var ts []*Term
		for _, n := range c.ndTrace {
			if !n.t.isC {
				ts = append(ts, n.t)
			}
		}
		vals := c.solver.Values(ts)
		c.solver.Done()
		fix := Bool(true)
		for i, t := range ts {
			if vals[i] == nil {
				continue
			}
			if t.width == IntSort {
				fix = And(fix, IntCmp("=", t, IntC(vals[i])))
			} else if t.width == 0 {
				fix = And(fix, Cmp("=", t, Bool(vals[i].Sign() != 0)))
			} else {
				fix = And(fix, Cmp("=", t, BV(vals[i].Uint64(), t.width)))
			}
		}
		r2 := c.solver.Check(fix, bad)
		c.solver.Done()
		if r2 == "sat" {
			c.ex.note("probe")
			return And(bad, fix), true
		}
		blocks = append(blocks, Not(fix))
	}
	c.inconclusive("solver " + r + " (no witness found by probing)")
	return bad, false
}

func (c *Ctx) replaying() bool { return len(c.decis) < len(c.prefix) }

// choose picks among alternatives guarded by terms; the path condition is known
// feasible on entry, and the guards are exhaustive (their disjunction is valid
// under the pc) when exhaustive is true, which lets the last query be skipped.
func (c *Ctx) chooseX(guards []*Term, exhaustive bool) int {
	c.stats.choice++
	i := len(c.decis)
	if i < len(c.prefix) {
		d := c.prefix[i]
		c.decis = append(c.decis, d)
		c.addPC(guards[d])
		return d
	}
	first := -1
	nfeas := 0
	for k, g := range guards {
		ok := false
		if exhaustive && k == len(guards)-1 && nfeas == 0 {
			ok = !g.IsFalse() // all others infeasible, pc feasible ⇒ this one is
		} else {
			ok = c.feasible(g)
		}
		if ok {
			nfeas++
			if first < 0 {
				first = k
			} else {
				np := append(append([]int{}, c.decis...), k)
				c.pending = append(c.pending, np)
			}
		}
	}
	if first < 0 {
		panic(abortPath{"no feasible alternative"})
	}
	c.decis = append(c.decis, first)
	c.addPC(guards[first])
	return first
}

func (c *Ctx) choose(guards []*Term) int { return c.chooseX(guards, false) }

func (c *Ctx) branch(cond *Term) bool {
	if cond.IsTrue() {
		return true
	}
	if cond.IsFalse() {
		return false
	}
	return c.chooseX([]*Term{cond, Not(cond)}, true) == 0
}

// concretize an index term into [0,n)
func (c *Ctx) concretize(t *Term, n int) int {
	if t.isC {
		if t.width == IntSort {
			return int(t.big().Int64())
		}
		return int(sext(t.cval, t.width))
	}
	gs := make([]*Term, n)
	for i := 0; i < n; i++ {
		if t.width == IntSort {
			gs[i] = IntCmp("=", t, IntC(big.NewInt(int64(i))))
		} else {
			gs[i] = Cmp("=", t, BV(uint64(i), t.width))
		}
	}
	return c.choose(gs)
}

// must checks an implicit safety condition of the real code.
func (c *Ctx) must(ok *Term, what string) {
	c.stats.implicit++
	if ok.IsTrue() {
		return
	}
	if c.replaying() {
		c.addPC(ok)
		return
	}
	if bad, v := c.violable(Not(ok)); v {
		c.reportViolation("implicit", what, bad)
		if !c.feasible(ok) {
			panic(abortPath{"always fails: " + what})
		}
	}
	c.addPC(ok)
}

var kfOpen map[string]*KnownFinding // id → entry, only status=open ones for the running harness

// reportViolation records a violation of `bad` under the current path condition,
// splitting it into the part that falls into an open known-finding class
// declared by the harness (verifKnownClass) and the rest.
func (c *Ctx) reportViolation(kind, label string, bad *Term) {
	rest := bad
	for _, k := range c.kf {
		ent := c.ex.kfOpen[k.id]
		if ent == nil || !ent.matches(kind, label, c.cp()) {
			continue
		}
		if c.feasibleQuiet(And(bad, k.cond)) {
			c.recordViolation(kind, label, And(bad, k.cond), k.id)
		}
		rest = And(rest, Not(k.cond))
	}
	if rest.IsFalse() {
		return
	}
	if rest != bad && !c.feasibleQuiet(rest) {
		return
	}
	c.recordViolation(kind, label, rest, "")
}

func (c *Ctx) feasibleQuiet(t *Term) bool {
	if t.IsTrue() {
		return true
	}
	if t.IsFalse() {
		return false
	}
	r := c.solver.Check(t)
	c.solver.Done()
	if r == "sat" {
		return true
	}
	if r == "unsat" {
		return false
	}
	c.incomplete = append(c.incomplete, "solver "+r+" while classifying a violation at "+c.cp())
	return false
}

func (c *Ctx) recordViolation(kind, label string, bad *Term, known string) {
	v := &Violation{Kind: kind, Label: label, Pos: c.cp(), Harness: c.harness, Known: known}
	v.Prefix = append([]int{}, c.decis...)
	v.Stack = strings.Join(c.stackNames(8), " <- ")
	// dedupe cheaply within the explorer before paying for a model
	if !c.ex.wantModel(v) {
		c.viols = append(c.viols, v)
		return
	}
	if c.modelOf == bad && len(c.modelVals) == len(c.ndTrace) {
		for i, n := range c.ndTrace {
			v.Vector = append(v.Vector, NdVal{Name: n.Name, Kind: n.Kind, Value: ndValueString(n, c.modelVals[i])})
		}
		c.viols = append(c.viols, v)
		return
	}
	r := c.solver.Check(bad)
	if r == "sat" {
		ts := make([]*Term, len(c.ndTrace))
		for i, n := range c.ndTrace {
			ts[i] = n.t
		}
		vals := c.solver.Values(ts)
		for i, n := range c.ndTrace {
			v.Vector = append(v.Vector, NdVal{Name: n.Name, Kind: n.Kind, Value: ndValueString(n, vals[i])})
		}
	} else if r != "unsat" {
		c.incomplete = append(c.incomplete, "solver "+r+" while extracting a model at "+c.cp())
	}
	c.solver.Done()
	c.viols = append(c.viols, v)
}

func ndValueString(n ndRec, v *big.Int) string {
	if v == nil {
		return "0"
	}
	signedW := 0
	switch n.Kind {
	case "rune", "int32":
		signedW = 32
	case "int64", "int", "range", "choice":
		signedW = 64
	case "int8":
		signedW = 8
	case "int16":
		signedW = 16
	}
	if signedW > 0 && n.t.width != IntSort {
		u := v.Uint64()
		return fmt.Sprintf("%d", sext(u, signedW))
	}
	return v.String()
}

// ---- known findings ----

type KnownFinding struct {
	Property string `json:"property"`
	ID       string `json:"id"`
	Status   string `json:"status"` // open | fixed
	Harness  string `json:"harness"`
	Kind     string `json:"kind,omitempty"`  // regexp on violation kind
	Label    string `json:"label,omitempty"` // regexp on label
	Pos      string `json:"pos,omitempty"`   // regexp on position
	What     string `json:"what"`
	Commit   string `json:"commit,omitempty"`
	Line     string `json:"line,omitempty"`

	reK, reL, reP *regexp.Regexp
}

func (k *KnownFinding) compile() {
	mk := func(s string) *regexp.Regexp {
		if s == "" {
			return nil
		}
		return regexp.MustCompile(s)
	}
	k.reK, k.reL, k.reP = mk(k.Kind), mk(k.Label), mk(k.Pos)
}

func (k *KnownFinding) matches(kind, label, pos string) bool {
	if k.reK != nil && !k.reK.MatchString(kind) {
		return false
	}
	if k.reL != nil && !k.reL.MatchString(label) {
		return false
	}
	if k.reP != nil && !k.reP.MatchString(pos) {
		return false
	}
	return true
}

func sortedKeys(m map[string]int) []string {
	ks := make([]string, 0, len(m))
	for k := range m {
		ks = append(ks, k)
	}
	sort.Strings(ks)
	return ks
}

// cp renders the current source position (lazily: this is off the hot path).
func (c *Ctx) cp() string {
	if c.posOverride != "" {
		return c.posOverride
	}
	if c.curTok == token.NoPos {
		return "-"
	}
	return c.prog.Fset.Position(c.curTok).String()
}

func (c *Ctx) stackNames(n int) []string {
	st := c.stack
	if len(st) > n {
		st = st[len(st)-n:]
	}
	out := make([]string, len(st))
	for i, f := range st {
		out[i] = f.String()
	}
	return out
}
