package main

import (
	"fmt"
	"go/types"
)

type Value interface{}

type Str struct{ b []*Term }

type Struct struct{ f []Value }
type Arr struct{ e []Value }
type Slice struct {
	back          *Arr
	off, len, cap int
}
type Ptr struct {
	slot *Value
	// symbolic element pointer
	symElems []Value
	symIdx   *Term
}
type Map struct {
	keys, vals []Value
}
type Iface struct {
	t types.Type
	v Value
}
type Closure struct {
	fn    interface{} // *ssa.Function
	fv    []Value
	recv  Value // bound method receiver
	bound bool
}
type Tuple []Value
type Opaque struct{ tag string }

func strConst(s string) *Str {
	b := make([]*Term, len(s))
	for i := 0; i < len(s); i++ {
		b[i] = BV(uint64(s[i]), 8)
	}
	return &Str{b}
}

func (s *Str) concrete() (string, bool) {
	out := make([]byte, len(s.b))
	for i, t := range s.b {
		if !t.isC {
			return "", false
		}
		out[i] = byte(t.cval)
	}
	return string(out), true
}

func intWidth(t types.Type) (int, bool) { // width, signed
	b, ok := t.Underlying().(*types.Basic)
	if !ok {
		panic(fmt.Sprintf("not basic: %s", t))
	}
	switch b.Kind() {
	case types.Bool, types.UntypedBool:
		return 0, false
	case types.Int8:
		return 8, true
	case types.Int16:
		return 16, true
	case types.Int32, types.UntypedRune:
		return 32, true
	case types.Int64, types.Int, types.UntypedInt:
		return 64, true
	case types.Uint8:
		return 8, false
	case types.Uint16:
		return 16, false
	case types.Uint32:
		return 32, false
	case types.Uint64, types.Uint, types.Uintptr:
		return 64, false
	}
	panic(fmt.Sprintf("intWidth: unsupported basic %s", b))
}

func isString(t types.Type) bool {
	b, ok := t.Underlying().(*types.Basic)
	return ok && b.Info()&types.IsString != 0
}
func isInteger(t types.Type) bool {
	b, ok := t.Underlying().(*types.Basic)
	return ok && b.Info()&types.IsInteger != 0
}
func isBool(t types.Type) bool {
	b, ok := t.Underlying().(*types.Basic)
	return ok && b.Info()&types.IsBoolean != 0
}

func zero(t types.Type) Value {
	switch u := t.Underlying().(type) {
	case *types.Basic:
		if u.Info()&types.IsString != 0 {
			return &Str{}
		}
		if u.Info()&types.IsBoolean != 0 {
			return Bool(false)
		}
		if u.Info()&types.IsInteger != 0 {
			w, _ := intWidth(t)
			return BV(0, w)
		}
		if u.Kind() == types.UnsafePointer {
			return (*Ptr)(nil)
		}
		if u.Info()&types.IsFloat != 0 {
			return Opaque{"float0"}
		}
		panic("zero: basic " + u.String())
	case *types.Struct:
		s := &Struct{f: make([]Value, u.NumFields())}
		for i := range s.f {
			s.f[i] = zero(u.Field(i).Type())
		}
		return s
	case *types.Array:
		a := &Arr{e: make([]Value, u.Len())}
		for i := range a.e {
			a.e[i] = zero(u.Elem())
		}
		return a
	case *types.Pointer:
		return (*Ptr)(nil)
	case *types.Slice:
		return Slice{}
	case *types.Map:
		return (*Map)(nil)
	case *types.Interface:
		return Iface{}
	case *types.Signature:
		return (*Closure)(nil)
	case *types.Chan:
		return Opaque{"nilchan"}
	case *types.Tuple:
		tt := make(Tuple, u.Len())
		for i := range tt {
			tt[i] = zero(u.At(i).Type())
		}
		return tt
	}
	panic(fmt.Sprintf("zero: %T %s", t.Underlying(), t))
}

func copyVal(v Value) Value {
	switch x := v.(type) {
	case *Struct:
		n := &Struct{f: make([]Value, len(x.f))}
		for i := range x.f {
			n.f[i] = copyVal(x.f[i])
		}
		return n
	case *Arr:
		n := &Arr{e: make([]Value, len(x.e))}
		for i := range x.e {
			n.e[i] = copyVal(x.e[i])
		}
		return n
	case Tuple:
		n := make(Tuple, len(x))
		for i := range x {
			n[i] = copyVal(x[i])
		}
		return n
	}
	return v
}
