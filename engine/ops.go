package main

import (
	"fmt"
	"go/token"
	"go/types"

	"golang.org/x/tools/go/ssa"
)

func (c *Ctx) strEq(a, b *Str) *Term {
	if len(a.b) != len(b.b) {
		return Bool(false)
	}
	r := Bool(true)
	for i := range a.b {
		r = And(r, Cmp("=", a.b[i], b.b[i]))
	}
	return r
}

func (c *Ctx) valEq(x, y Value) *Term {
	switch a := x.(type) {
	case *Term:
		return Cmp("=", a, y.(*Term))
	case *Str:
		return c.strEq(a, y.(*Str))
	case *Ptr:
		b := y.(*Ptr)
		if a == nil || b == nil {
			return Bool(a == nil && b == nil)
		}
		return Bool(a.slot == b.slot)
	case Iface:
		b := y.(Iface)
		if a.t == nil || b.t == nil {
			return Bool(a.t == nil && b.t == nil)
		}
		if !types.Identical(a.t, b.t) {
			return Bool(false)
		}
		return c.valEq(a.v, b.v)
	case *Map:
		return Bool(a == y.(*Map))
	case Slice:
		b := y.(Slice)
		return Bool(a.back == nil && b.back == nil) // only nil comparisons are legal
	case *Closure:
		return Bool(a == nil && y.(*Closure) == nil)
	case *Struct:
		b := y.(*Struct)
		r := Bool(true)
		for i := range a.f {
			r = And(r, c.valEq(a.f[i], b.f[i]))
		}
		return r
	case *Arr:
		b := y.(*Arr)
		r := Bool(true)
		for i := range a.e {
			r = And(r, c.valEq(a.e[i], b.e[i]))
		}
		return r
	case Opaque:
		return Bool(a == y.(Opaque))
	}
	c.errf("valEq on %T", x)
	return nil
}

func (c *Ctx) binop(op token.Token, xt types.Type, x, y Value, yt types.Type) Value {
	switch op {
	case token.EQL:
		return c.valEq(x, y)
	case token.NEQ:
		return Not(c.valEq(x, y))
	}
	if sx, ok := x.(*Str); ok {
		sy := y.(*Str)
		switch op {
		case token.ADD:
			return &Str{b: append(append([]*Term{}, sx.b...), sy.b...)}
		}
		// lexicographic order as a term
		lt := Bool(false) // a < b
		eqPrefix := Bool(true)
		n := len(sx.b)
		if len(sy.b) < n {
			n = len(sy.b)
		}
		for i := 0; i < n; i++ {
			lt = Or(lt, And(eqPrefix, Cmp("bvult", sx.b[i], sy.b[i])))
			eqPrefix = And(eqPrefix, Cmp("=", sx.b[i], sy.b[i]))
		}
		if len(sx.b) < len(sy.b) {
			lt = Or(lt, eqPrefix)
		}
		eq := c.strEq(sx, sy)
		switch op {
		case token.LSS:
			return lt
		case token.LEQ:
			return Or(lt, eq)
		case token.GTR:
			return Not(Or(lt, eq))
		case token.GEQ:
			return Not(lt)
		}
		c.errf("string binop %s", op)
	}
	a, b := x.(*Term), y.(*Term)
	if a.width == 0 {
		switch op {
		case token.AND:
			return And(a, b)
		case token.OR:
			return Or(a, b)
		}
		c.errf("bool binop %s", op)
	}
	_, signed := intWidth(xt)
	switch op {
	case token.ADD:
		return BinBV("bvadd", a, b)
	case token.SUB:
		return BinBV("bvsub", a, b)
	case token.MUL:
		return BinBV("bvmul", a, b)
	case token.QUO, token.REM:
		c.must(Not(Cmp("=", b, BV(0, b.width))), "integer divide by zero")
		if signed {
			if op == token.QUO {
				return BinBV("bvsdiv", a, b)
			}
			return BinBV("bvsrem", a, b)
		}
		if op == token.QUO {
			return BinBV("bvudiv", a, b)
		}
		return BinBV("bvurem", a, b)
	case token.AND:
		return BinBV("bvand", a, b)
	case token.OR:
		return BinBV("bvor", a, b)
	case token.XOR:
		return BinBV("bvxor", a, b)
	case token.AND_NOT:
		return BinBV("bvand", a, BvNot(b))
	case token.SHL, token.SHR:
		// shift count: resize to a.width (saturating)
		sh := b
		if sh.width > a.width {
			big := Not(Cmp("bvult", sh, BV(uint64(a.width), sh.width)))
			sh = Ite(big, BV(uint64(a.width), a.width), Extract(sh, a.width-1, 0))
		} else if sh.width < a.width {
			sh = ZExt(sh, a.width)
		}
		if op == token.SHL {
			return BinBV("bvshl", a, sh)
		}
		if signed {
			return BinBV("bvashr", a, sh)
		}
		return BinBV("bvlshr", a, sh)
	case token.LSS, token.LEQ, token.GTR, token.GEQ:
		lt, le := "bvult", "bvule"
		if signed {
			lt, le = "bvslt", "bvsle"
		}
		switch op {
		case token.LSS:
			return Cmp(lt, a, b)
		case token.LEQ:
			return Cmp(le, a, b)
		case token.GTR:
			return Cmp(lt, b, a)
		case token.GEQ:
			return Cmp(le, b, a)
		}
	}
	c.errf("binop %s", op)
	return nil
}

func isFloat(t types.Type) bool {
	b, ok := t.Underlying().(*types.Basic)
	return ok && b.Info()&types.IsFloat != 0
}

func (c *Ctx) convert(from, to types.Type, v Value) Value {
	fu, tu := from.Underlying(), to.Underlying()
	if isFloat(from) && isFloat(to) {
		return v // floats are opaque values: copied, never computed on
	}
	if isInteger(from) && isInteger(to) {
		_, fs := intWidth(from)
		tw, _ := intWidth(to)
		t := v.(*Term)
		if tw <= t.width {
			return Extract(t, tw-1, 0)
		}
		if fs {
			return SExt(t, tw)
		}
		return ZExt(t, tw)
	}
	if isString(to) {
		if isInteger(from) { // string(rune)
			return c.runeToStr(v.(*Term), from)
		}
		if sl, ok := fu.(*types.Slice); ok {
			s := v.(Slice)
			eb := sl.Elem().Underlying().(*types.Basic)
			if eb.Kind() == types.Uint8 {
				out := &Str{}
				for k := 0; k < s.len; k++ {
					out.b = append(out.b, s.back.e[s.off+k].(*Term))
				}
				return out
			}
			if eb.Kind() == types.Int32 {
				out := &Str{}
				for k := 0; k < s.len; k++ {
					out.b = append(out.b, c.runeToStr(s.back.e[s.off+k].(*Term), types.Typ[types.Int32]).b...)
				}
				return out
			}
		}
	}
	if isString(from) {
		if sl, ok := tu.(*types.Slice); ok {
			s := v.(*Str)
			eb := sl.Elem().Underlying().(*types.Basic)
			if eb.Kind() == types.Uint8 {
				a := &Arr{e: make([]Value, len(s.b))}
				for k, b := range s.b {
					a.e[k] = b
				}
				return Slice{back: a, len: len(s.b), cap: len(s.b)}
			}
			if eb.Kind() == types.Int32 {
				a := &Arr{}
				it := &strIter{s: s}
				for {
					t := c.strNext(it)
					if t[0].(*Term).IsFalse() {
						break
					}
					a.e = append(a.e, t[2])
				}
				return Slice{back: a, len: len(a.e), cap: len(a.e)}
			}
		}
	}
	if _, ok := tu.(*types.Pointer); ok { // unsafe etc
		return v
	}
	c.errf("convert %s -> %s", from, to)
	return nil
}

// runeToStr encodes a rune term as UTF-8, forking on the length class.
func (c *Ctx) runeToStr(r *Term, from types.Type) *Str {
	w, signed := intWidth(from)
	_ = w
	var r32 *Term
	if r.width >= 32 {
		r32 = Extract(r, 31, 0)
	} else if signed {
		r32 = SExt(r, 32)
	} else {
		r32 = ZExt(r, 32)
	}
	ult := func(a *Term, k uint64) *Term { return Cmp("bvult", a, BV(k, 32)) }
	k8 := func(t *Term) *Term { return Extract(t, 7, 0) }
	shr := func(t *Term, n uint64) *Term { return BinBV("bvlshr", t, BV(n, 32)) }
	and := func(t *Term, m uint64) *Term { return BinBV("bvand", t, BV(m, 32)) }
	or := func(t *Term, m uint64) *Term { return BinBV("bvor", t, BV(m, 32)) }
	surrogate := And(Not(ult(r32, 0xD800)), ult(r32, 0xE000))
	invalid := Or(surrogate, Not(ult(r32, 0x110000)))
	if r.width > 32 {
		hi := Extract(r, r.width-1, 32)
		invalid = Or(invalid, Not(Cmp("=", hi, BV(0, r.width-32))))
	}
	guards := []*Term{
		And(Not(invalid), ult(r32, 0x80)),
		And(Not(invalid), And(Not(ult(r32, 0x80)), ult(r32, 0x800))),
		And(Not(invalid), And(Not(ult(r32, 0x800)), ult(r32, 0x10000))),
		And(Not(invalid), Not(ult(r32, 0x10000))),
		invalid,
	}
	switch c.choose(guards) {
	case 0:
		return &Str{b: []*Term{k8(r32)}}
	case 1:
		return &Str{b: []*Term{k8(or(shr(r32, 6), 0xC0)), k8(or(and(r32, 0x3F), 0x80))}}
	case 2:
		return &Str{b: []*Term{k8(or(shr(r32, 12), 0xE0)), k8(or(and(shr(r32, 6), 0x3F), 0x80)), k8(or(and(r32, 0x3F), 0x80))}}
	case 3:
		return &Str{b: []*Term{k8(or(shr(r32, 18), 0xF0)), k8(or(and(shr(r32, 12), 0x3F), 0x80)), k8(or(and(shr(r32, 6), 0x3F), 0x80)), k8(or(and(r32, 0x3F), 0x80))}}
	}
	return strConst("�")
}

// strNext decodes the next rune by interpreting utf8.DecodeRuneInString.
func (c *Ctx) strNext(it *strIter) Tuple {
	if it.pos >= len(it.s.b) {
		return Tuple{Bool(false), BV(0, 64), BV(0, 32)}
	}
	dec := c.prog.ImportedPackage("unicode/utf8").Func("DecodeRuneInString")
	res := c.call(dec, []Value{&Str{b: it.s.b[it.pos:]}}).(Tuple)
	size := res[1].(*Term)
	n := c.concretize(size, 5)
	idx := it.pos
	it.pos += n
	return Tuple{Bool(true), BV(uint64(idx), 64), res[0]}
}

func (c *Ctx) typeAssert(i *ssa.TypeAssert, x Iface) Value {
	ok := false
	var val Value
	if x.t != nil {
		if types.IsInterface(i.AssertedType) {
			if isEngineType(x.t) || types.Implements(x.t, i.AssertedType.Underlying().(*types.Interface)) {
				ok = true
				val = x
			}
		} else if types.Identical(x.t, i.AssertedType) {
			ok = true
			val = x.v
		}
	}
	if i.CommaOk {
		if !ok {
			val = zero(i.AssertedType)
		}
		return Tuple{val, Bool(ok)}
	}
	if !ok {
		panic(&goPanic{what: fmt.Sprintf("interface conversion: %v is not %s", x.t, i.AssertedType), pos: c.cp()})
	}
	return val
}

func (c *Ctx) mapLookup(m *Map, k Value, et types.Type) (Value, *Term) {
	z := zero(et)
	if m == nil {
		return z, Bool(false)
	}
	// concrete hit?
	found := Bool(false)
	res := z
	for idx := len(m.keys) - 1; idx >= 0; idx-- {
		eq := c.valEq(m.keys[idx], k)
		if eq.IsFalse() {
			continue
		}
		if eq.IsTrue() {
			return m.vals[idx], Bool(true)
		}
		// symbolic key: merge scalars, else fork
		rv, ok1 := res.(*Term)
		mv, ok2 := m.vals[idx].(*Term)
		if ok1 && ok2 {
			res = Ite(eq, mv, rv)
			found = Or(found, eq)
		} else {
			if c.branch(eq) {
				return m.vals[idx], Bool(true)
			}
		}
	}
	return res, found
}

func (c *Ctx) mapUpdate(m *Map, k, v Value) {
	if m == nil {
		panic(&goPanic{what: "assignment to entry in nil map", pos: c.cp()})
	}
	for idx := range m.keys {
		eq := c.valEq(m.keys[idx], k)
		if eq.IsFalse() {
			continue
		}
		if eq.IsTrue() || c.branch(eq) {
			m.vals[idx] = v
			return
		}
	}
	m.keys = append(m.keys, k)
	m.vals = append(m.vals, v)
}

func (c *Ctx) builtin(b *ssa.Builtin, args []Value) Value {
	switch b.Name() {
	case "ssa:wrapnilchk":
		if p, ok := args[0].(*Ptr); ok && p == nil {
			panic(&goPanic{what: "value method called on nil pointer", pos: c.cp()})
		}
		return args[0]
	case "len":
		switch x := args[0].(type) {
		case *Str:
			return BV(uint64(len(x.b)), 64)
		case Slice:
			return BV(uint64(x.len), 64)
		case *Map:
			if x == nil {
				return BV(0, 64)
			}
			return BV(uint64(len(x.keys)), 64)
		case *Arr:
			return BV(uint64(len(x.e)), 64)
		case *Ptr:
			return BV(uint64(len((*x.slot).(*Arr).e)), 64)
		}
	case "cap":
		switch x := args[0].(type) {
		case Slice:
			return BV(uint64(x.cap), 64)
		}
	case "append":
		s := args[0].(Slice)
		var add []Value
		switch y := args[1].(type) {
		case Slice:
			for k := 0; k < y.len; k++ {
				add = append(add, copyVal(y.back.e[y.off+k]))
			}
		case *Str:
			for _, bt := range y.b {
				add = append(add, bt)
			}
		}
		if len(add) == 0 {
			return s
		}
		if s.back != nil && s.len+len(add) <= s.cap {
			copy(s.back.e[s.off+s.len:], add)
			return Slice{back: s.back, off: s.off, len: s.len + len(add), cap: s.cap}
		}
		ncap := 2*s.cap + len(add)
		a := &Arr{e: make([]Value, ncap)}
		for k := 0; k < s.len; k++ {
			a.e[k] = s.back.e[s.off+k]
		}
		copy(a.e[s.len:], add)
		et := b.Type().(*types.Signature).Results().At(0).Type().Underlying().(*types.Slice).Elem()
		for k := s.len + len(add); k < ncap; k++ {
			a.e[k] = zero(et)
		}
		return Slice{back: a, len: s.len + len(add), cap: ncap}
	case "copy":
		d := args[0].(Slice)
		var src []Value
		switch y := args[1].(type) {
		case Slice:
			for k := 0; k < y.len; k++ {
				src = append(src, copyVal(y.back.e[y.off+k]))
			}
		case *Str:
			for _, bt := range y.b {
				src = append(src, bt)
			}
		}
		n := len(src)
		if d.len < n {
			n = d.len
		}
		for k := 0; k < n; k++ {
			d.back.e[d.off+k] = src[k]
		}
		return BV(uint64(n), 64)
	case "min", "max":
		sig, _ := b.Type().(*types.Signature)
		signed := true
		if sig != nil && sig.Params().Len() > 0 {
			if bt, ok := sig.Params().At(0).Type().Underlying().(*types.Basic); ok {
				if bt.Info()&types.IsInteger == 0 {
					c.errf("builtin %s on non-integer operands", b.Name())
				}
				signed = bt.Info()&types.IsUnsigned == 0
			}
		}
		lt := "bvult"
		if signed {
			lt = "bvslt"
		}
		res := args[0].(*Term)
		for _, o := range args[1:] {
			ot := o.(*Term)
			if b.Name() == "min" {
				res = Ite(Cmp(lt, ot, res), ot, res)
			} else {
				res = Ite(Cmp(lt, res, ot), ot, res)
			}
		}
		return res
	case "recover":
		// deferred functions only run on normal return in this engine (a panic
		// ends the path and is reported), so there is never a panic to recover
		return Iface{}
	case "delete":
		m := args[0].(*Map)
		if m == nil {
			return nil
		}
		for idx := range m.keys {
			if c.valEq(m.keys[idx], args[1]).IsTrue() {
				m.keys = append(m.keys[:idx], m.keys[idx+1:]...)
				m.vals = append(m.vals[:idx], m.vals[idx+1:]...)
				return nil
			}
		}
		return nil
	}
	c.errf("builtin %s with %d args", b.Name(), len(args))
	return nil
}
