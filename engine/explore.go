package main

import (
	"fmt"
	"os"
	"runtime/debug"
	"sort"
	"strings"
	"sync"
	"time"

	"golang.org/x/tools/go/ssa"
)

type HarnessSpec struct {
	Pkg        string         `json:"pkg"`  // path relative to the module root, e.g. lib/id62
	Func       string         `json:"func"` // harness function name
	Params     map[string]int `json:"params,omitempty"`
	MaxPaths   int            `json:"max_paths,omitempty"`
	MaxSteps   int            `json:"max_steps,omitempty"`
	TimeoutS   int            `json:"timeout_s,omitempty"`
	Workers    int            `json:"workers,omitempty"`
	TermBudget int            `json:"term_budget,omitempty"`
	Note       string         `json:"note,omitempty"`
}

type violAgg struct {
	First *Violation
	Count int
	// other paths violating the same assertion with different inputs: tried
	// natively when First does not reproduce (an engine-side free choice, such
	// as the order sort.Slice leaves among equal elements, has no native
	// counterpart; another input vector may show the same violation for real)
	Alts    []*Violation
	altSeen map[string]bool
}

type PathSample struct {
	Prefix []int   `json:"decisions"`
	Vector []NdVal `json:"inputs"`
}

type Explorer struct {
	prog    *ssa.Program
	fn      *ssa.Function
	spec    HarnessSpec
	hpkgs   []string
	kfOpen  map[string]*KnownFinding
	install func(c *Ctx)

	mu      sync.Mutex
	cond    *sync.Cond
	pending [][]int
	active  int
	stop    bool
	why     string

	Paths, Completed, Aborted, AssumeDrops, Inconclusive int
	Choice, Asserts, Implicit                            int
	Queries, Sat, Unsat, Unknown                         int
	SolverTime                                           time.Duration
	MaxQuery                                             time.Duration
	Wall                                                 time.Duration
	viols                                                map[string]*violAgg
	reach                                                map[string]int
	funcs                                                map[*ssa.Function]int
	incomplete                                           []string
	engineErrs                                           []string
	samples                                              []PathSample
	modelKeys                                            map[string]bool
	deadline                                             time.Time
	truncated                                            bool
	maxDepth                                             int
	notes                                                map[string]int
}

func (ex *Explorer) note(k string) {
	ex.mu.Lock()
	if ex.notes == nil {
		ex.notes = map[string]int{}
	}
	ex.notes[k]++
	ex.mu.Unlock()
}

func (ex *Explorer) wantModel(v *Violation) bool {
	ex.mu.Lock()
	defer ex.mu.Unlock()
	k := v.key() + "|" + v.Known
	if ex.modelKeys[k] {
		return false
	}
	ex.modelKeys[k] = true
	return true
}

func (ex *Explorer) pop() ([]int, bool) {
	ex.mu.Lock()
	defer ex.mu.Unlock()
	for {
		if ex.stop {
			return nil, false
		}
		if n := len(ex.pending); n > 0 {
			p := ex.pending[n-1]
			ex.pending = ex.pending[:n-1]
			ex.active++
			return p, true
		}
		if ex.active == 0 {
			ex.cond.Broadcast()
			return nil, false
		}
		ex.cond.Wait()
	}
}

func (ex *Explorer) halt(why string) {
	ex.mu.Lock()
	if !ex.stop {
		ex.stop = true
		ex.why = why
	}
	ex.cond.Broadcast()
	ex.mu.Unlock()
}

func (ex *Explorer) finish(c *Ctx, outcome string) {
	ex.mu.Lock()
	defer ex.mu.Unlock()
	ex.active--
	ex.Paths++
	switch outcome {
	case "completed":
		ex.Completed++
	case "aborted":
		ex.Aborted++
	case "inconclusive":
		ex.Inconclusive++
	}
	ex.AssumeDrops += c.stats.assumeDrops
	ex.Choice += c.stats.choice
	ex.Asserts += c.stats.asserts
	ex.Implicit += c.stats.implicit
	if len(c.decis) > ex.maxDepth {
		ex.maxDepth = len(c.decis)
	}
	for _, v := range c.viols {
		k := v.key() + "|" + v.Known
		a := ex.viols[k]
		if a == nil {
			a = &violAgg{First: v}
			ex.viols[k] = a
		} else if len(a.First.Vector) == 0 && len(v.Vector) > 0 {
			a.First = v
		}
		a.Count++
		if a.First != v && len(a.Alts) < 40 && len(v.Vector) > 0 {
			if a.altSeen == nil {
				a.altSeen = map[string]bool{vecString(a.First.Vector): true}
			}
			if vs := vecString(v.Vector); !a.altSeen[vs] {
				a.altSeen[vs] = true
				a.Alts = append(a.Alts, v)
			}
		}
	}
	for l, n := range c.reach {
		ex.reach[l] += n
	}
	for f, n := range c.funcs {
		ex.funcs[f] += n
	}
	ex.incomplete = append(ex.incomplete, c.incomplete...)
	ex.pending = append(ex.pending, c.pending...)
	if ex.spec.MaxPaths > 0 && ex.Paths >= ex.spec.MaxPaths && (len(ex.pending) > 0 || ex.active > 0) {
		ex.truncated = true
		ex.stop = true
		ex.why = fmt.Sprintf("path limit %d reached", ex.spec.MaxPaths)
	}
	if !ex.deadline.IsZero() && time.Now().After(ex.deadline) && (len(ex.pending) > 0 || ex.active > 0) {
		ex.truncated = true
		ex.stop = true
		ex.why = "time budget exhausted"
	}
	if ex.Paths%500 == 0 && verbose {
		fmt.Fprintf(os.Stderr, "  [%s] paths=%d pending=%d viol-kinds=%d\n", ex.spec.Func, ex.Paths, len(ex.pending), len(ex.viols))
	}
	ex.cond.Broadcast()
}

var verbose = os.Getenv("VERIF_VERBOSE") != ""

func (ex *Explorer) worker(id int) {
	c := &Ctx{ex: ex, prog: ex.prog, fnInfos: map[*ssa.Function]*fnInfo{}, intrinsics: map[string]func(*Ctx, []Value) Value{}, harness: ex.spec.Pkg + "." + ex.spec.Func}
	c.solver = NewSolver(solverBin, solverArgs...)
	defer func() {
		ex.mu.Lock()
		ex.Queries += c.solver.Queries
		ex.Sat += c.solver.Sat
		ex.Unsat += c.solver.Unsat
		ex.Unknown += c.solver.Unknown
		ex.SolverTime += c.solver.Time
		if c.solver.MaxQuery > ex.MaxQuery {
			ex.MaxQuery = c.solver.MaxQuery
		}
		ex.mu.Unlock()
		c.solver.Close()
	}()
	ex.install(c)
	for {
		p, ok := ex.pop()
		if !ok {
			return
		}
		outcome := c.runPath(p)
		if outcome == "engine-error" {
			ex.mu.Lock()
			ex.active--
			ex.mu.Unlock()
			ex.halt("engine error")
			return
		}
		ex.finish(c, outcome)
	}
}

func (c *Ctx) resetPath(p []int) {
	c.prefix, c.decis, c.pc, c.pending = p, nil, nil, nil
	c.globals = map[*ssa.Global]*Value{}
	c.inited = map[*ssa.Package]bool{}
	c.ndSeq = map[string]int{}
	c.ndTrace = nil
	c.steps, c.depth = 0, 0
	c.stack = c.stack[:0]
	c.exts, c.sched, c.bigs, c.eqMemo, c.srcMemo = nil, nil, nil, nil, nil
	c.freshSeq = 0
	c.numMemo = nil
	c.syncMaps = nil
	c.pools = nil
	c.kf = nil
	c.viols = nil
	c.incomplete = nil
	c.reach = map[string]int{}
	c.funcs = map[*ssa.Function]int{}
	c.stats = pathStats{}
	c.termBudget = c.ex.spec.TermBudget
	c.stepMax = 5000000
	if c.ex.spec.MaxSteps > 0 {
		c.stepMax = c.ex.spec.MaxSteps
	}
	if c.termBudget > 0 {
		c.stepMax = c.termBudget
	}
	c.depthMax = 400
	c.mapOrderMax = c.ex.spec.Params["engine.maporder"]
	c.preemptEverywhere = c.ex.spec.Params["engine.preempt"] == 1
	c.maxPreempt = defaultMaxPreempt
	if v, ok := c.ex.spec.Params["engine.maxpreempt"]; ok {
		c.maxPreempt = v
	}
	c.extra = nil
	c.bypass = false
	c.explicitInit = false
	c.noTrack = 0
}

func (c *Ctx) runPath(p []int) (outcome string) {
	c.resetPath(p)
	c.solver.BeginPath()
	defer c.solver.EndPath()
	outcome = "completed"
	func() {
		defer func() {
			if r := recover(); r != nil {
				switch e := r.(type) {
				case abortPath:
					outcome = "aborted"
					if strings.HasPrefix(e.why, "inconclusive") {
						outcome = "inconclusive"
					}
					if e.why == "assume" {
						c.stats.assumeDrops++
					}
				case *goPanic:
					outcome = "completed"
					c.posOverride = e.pos
					if strings.HasPrefix(e.what, "UNMODELLED") {
						c.incomplete = append(c.incomplete, e.what+" at "+e.pos)
						return
					}
					if strings.Contains(e.pos, "zz_verif_") && !strings.HasPrefix(e.what, "verifPanic:") {
						// a panic raised by harness code itself (an unmodelled fake method or a harness bug)
						c.incomplete = append(c.incomplete, "UNMODELLED/harness panic: "+e.what+" at "+e.pos)
						return
					}
					func() {
						defer func() {
							if r2 := recover(); r2 != nil {
								if _, ok := r2.(abortPath); !ok {
									panic(r2)
								}
							}
						}()
						c.reportViolation("panic", strings.TrimPrefix(e.what, "verifPanic:"), Bool(true))
					}()
				case stepLimit:
					if c.termBudget > 0 {
						func() {
							defer func() { recover() }()
							c.reportViolation("unwind", fmt.Sprintf("no termination within %d interpreter steps", c.termBudget), Bool(true))
						}()
					} else {
						outcome = "inconclusive"
						c.incomplete = append(c.incomplete, "UNWIND-EXCEEDED: interpreter step limit at "+c.cp())
					}
				case engineErr:
					c.ex.mu.Lock()
					c.ex.engineErrs = append(c.ex.engineErrs, e.msg)
					c.ex.mu.Unlock()
					outcome = "engine-error"
				default:
					c.ex.mu.Lock()
					c.ex.engineErrs = append(c.ex.engineErrs, fmt.Sprintf("internal panic: %v at %s\n%s", r, c.cp(), debug.Stack()))
					c.ex.mu.Unlock()
					outcome = "engine-error"
				}
			}
		}()
		c.call(c.ex.fn, nil)
		if c.sched != nil {
			c.schedCleanup()
		}
	}()
	if outcome == "completed" && len(c.viols) == 0 && c.ex.wantSample() {
		// record a witness input for this path
		if r := c.solver.Check(); r == "sat" {
			ts := make([]*Term, len(c.ndTrace))
			for i, n := range c.ndTrace {
				ts[i] = n.t
			}
			vals := c.solver.Values(ts)
			s := PathSample{Prefix: append([]int{}, c.decis...)}
			for i, n := range c.ndTrace {
				s.Vector = append(s.Vector, NdVal{Name: n.Name, Kind: n.Kind, Value: ndValueString(n, vals[i])})
			}
			c.ex.addSample(s)
		}
		c.solver.Done()
	}
	return outcome
}

type stepLimit struct{}

func (ex *Explorer) wantSample() bool {
	ex.mu.Lock()
	defer ex.mu.Unlock()
	return len(ex.samples) < 4 || (ex.Paths%997 == 0 && len(ex.samples) < 12)
}

func (ex *Explorer) addSample(s PathSample) {
	ex.mu.Lock()
	ex.samples = append(ex.samples, s)
	ex.mu.Unlock()
}

func (ex *Explorer) Run() {
	t0 := time.Now()
	ex.cond = sync.NewCond(&ex.mu)
	ex.pending = [][]int{{}}
	ex.viols = map[string]*violAgg{}
	ex.reach = map[string]int{}
	ex.funcs = map[*ssa.Function]int{}
	ex.modelKeys = map[string]bool{}
	if ex.spec.TimeoutS > 0 {
		ex.deadline = t0.Add(time.Duration(ex.spec.TimeoutS) * time.Second)
	}
	n := ex.spec.Workers
	if n <= 0 {
		n = defaultWorkers
	}
	var wg sync.WaitGroup
	for i := 0; i < n; i++ {
		wg.Add(1)
		go func(i int) {
			defer wg.Done()
			ex.worker(i)
		}(i)
	}
	wg.Wait()
	ex.Wall = time.Since(t0)
}

var defaultWorkers = 16
var solverBin = "z3-new"
var solverArgs = []string{"-in"}

func (ex *Explorer) sortedViolations() []*violAgg {
	var out []*violAgg
	for _, a := range ex.viols {
		out = append(out, a)
	}
	sort.Slice(out, func(i, j int) bool { return out[i].First.key() < out[j].First.key() })
	return out
}

type FuncInfo struct {
	Name  string `json:"name"`
	Pos   string `json:"pos"`
	Calls int    `json:"calls"`
}

func (ex *Explorer) encodedFunctions(prefix string) (repo []FuncInfo, other int) {
	for f, n := range ex.funcs {
		name := f.String()
		pos := ex.prog.Fset.Position(f.Pos())
		if strings.Contains(pos.Filename, "zz_verif_") {
			continue
		}
		if strings.HasPrefix(pos.Filename, prefix) {
			repo = append(repo, FuncInfo{Name: name, Pos: fmt.Sprintf("%s:%d", strings.TrimPrefix(pos.Filename, prefix), pos.Line), Calls: n})
		} else {
			other++
		}
	}
	sort.Slice(repo, func(i, j int) bool { return repo[i].Name < repo[j].Name })
	return
}
