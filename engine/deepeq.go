package main

import (
	"fmt"
	"go/types"
	"strings"
)

// verifAssertDeepEqual(a, b, label): structural equality with protobuf
// conventions (unexported struct fields such as state/sizeCache/unknownFields
// are skipped; a nil slice equals an empty slice; pointers are compared by
// pointee; interface values must have the same dynamic type). Each leaf that
// can differ is its own obligation, reported as "<label>:<path>".
type deepLeaf struct {
	path string
	eq   *Term
}

func (c *Ctx) deepEq(path string, t types.Type, a, b Value, out *[]deepLeaf, depth int) {
	if depth > 40 {
		c.errf("verifAssertDeepEqual: structure deeper than 40 (cyclic?) at %s", path)
	}
	add := func(p string, eq *Term) {
		if !eq.IsTrue() {
			*out = append(*out, deepLeaf{p, eq})
		}
	}
	switch av := a.(type) {
	case *Term:
		add(path, Cmp("=", av, b.(*Term)))
	case *Str:
		add(path, c.strEq(av, b.(*Str)))
	case Opaque:
		add(path, Bool(av == b.(Opaque)))
	case *Ptr:
		bv := b.(*Ptr)
		if av == nil || bv == nil {
			add(path+"(nil?)", Bool(av == nil && bv == nil))
			return
		}
		if av.slot == bv.slot {
			return
		}
		var et types.Type
		if pt, ok := t.Underlying().(*types.Pointer); ok {
			et = pt.Elem()
		}
		c.deepEq(path, et, c.load(av), c.load(bv), out, depth+1)
	case Iface:
		bv := b.(Iface)
		if av.t == nil || bv.t == nil {
			add(path+"(nil?)", Bool(av.t == nil && bv.t == nil))
			return
		}
		if !types.Identical(av.t, bv.t) {
			add(path+fmt.Sprintf("(type %s vs %s)", shortType(av.t), shortType(bv.t)), Bool(false))
			return
		}
		c.deepEq(path+"("+shortType(av.t)+")", av.t, av.v, bv.v, out, depth+1)
	case *Struct:
		bv := b.(*Struct)
		st, _ := t.Underlying().(*types.Struct)
		for i := range av.f {
			name := fmt.Sprintf("f%d", i)
			var ft types.Type
			if st != nil && i < st.NumFields() {
				if !st.Field(i).Exported() {
					continue
				}
				name = st.Field(i).Name()
				ft = st.Field(i).Type()
			}
			c.deepEq(path+"."+name, ft, av.f[i], bv.f[i], out, depth+1)
		}
	case Slice:
		bv := b.(Slice)
		if av.len != bv.len {
			add(path+fmt.Sprintf("(len %d vs %d)", av.len, bv.len), Bool(false))
			return
		}
		var et types.Type
		if sl, ok := t.Underlying().(*types.Slice); ok {
			et = sl.Elem()
		}
		for k := 0; k < av.len; k++ {
			c.deepEq(fmt.Sprintf("%s[%d]", path, k), et, av.back.e[av.off+k], bv.back.e[bv.off+k], out, depth+1)
		}
	case *Arr:
		bv := b.(*Arr)
		var et types.Type
		if ar, ok := t.Underlying().(*types.Array); ok {
			et = ar.Elem()
		}
		for k := range av.e {
			c.deepEq(fmt.Sprintf("%s[%d]", path, k), et, av.e[k], bv.e[k], out, depth+1)
		}
	case *Map:
		bv := b.(*Map)
		na, nb := 0, 0
		if av != nil {
			na = len(av.keys)
		}
		if bv != nil {
			nb = len(bv.keys)
		}
		if na != nb {
			add(path+fmt.Sprintf("(map size %d vs %d)", na, nb), Bool(false))
			return
		}
		var et types.Type
		if mt, ok := t.Underlying().(*types.Map); ok {
			et = mt.Elem()
		}
		for i := 0; i < na; i++ {
			found := false
			for j := 0; j < nb; j++ {
				if c.valEq(av.keys[i], bv.keys[j]).IsTrue() {
					c.deepEq(fmt.Sprintf("%s[key %d]", path, i), et, av.vals[i], bv.vals[j], out, depth+1)
					found = true
					break
				}
			}
			if !found {
				add(fmt.Sprintf("%s[key %d missing]", path, i), Bool(false))
			}
		}
	case *Closure:
		add(path, Bool(av == nil && b.(*Closure) == nil))
	case nil:
		add(path, Bool(b == nil))
	default:
		c.errf("verifAssertDeepEqual: unsupported value %T at %s", a, path)
	}
}

func shortType(t types.Type) string {
	s := t.String()
	if i := strings.LastIndex(s, "/"); i >= 0 {
		s = s[i+1:]
	}
	return strings.TrimPrefix(s, "*")
}

func installDeepEq(c *Ctx, hpkgs []string) {
	for _, p := range hpkgs {
		c.intrinsics[p+".verifAssertDeepEqual"] = func(c *Ctx, a []Value) Value {
			label := cstr(a[2])
			c.stats.asserts++
			c.reach[label]++
			x, y := a[0].(Iface), a[1].(Iface)
			var leaves []deepLeaf
			c.deepEq("", nil, x, y, &leaves, 0)
			for _, l := range leaves {
				if c.replaying() {
					c.addPC(l.eq)
					continue
				}
				if bad, v := c.violable(Not(l.eq)); v {
					c.reportViolation("assert", label+":"+strings.TrimPrefix(l.path, "."), bad)
					if !c.feasible(l.eq) {
						panic(abortPath{"assert always fails"})
					}
				}
				c.addPC(l.eq)
			}
			return nil
		}
	}
}
