package main

import (
	"fmt"
	"math/big"
	"strings"
	"sync"
	"sync/atomic"
)

// Sort: width>0 => BitVec(width); width==0 => Bool
type Term struct {
	op     string
	args   []*Term
	width  int    // 0 = Bool
	cval   uint64 // for const
	isC    bool
	name   string // for var
	id     int
	p1, p2 int    // extract hi/lo or extend amount
	bigv   string // decimal value for Int constants (width == -1)
	taint  bool   // depends on opaque (unmodelled) text
}

const IntSort = -1

func IntC(v *big.Int) *Term {
	return mk(&Term{op: "const", width: IntSort, isC: true, bigv: v.String()})
}
func IntVar(name string) *Term { return mk(&Term{op: "var", width: IntSort, name: name}) }
func (t *Term) big() *big.Int  { b, _ := new(big.Int).SetString(t.bigv, 10); return b }

// toInt lifts a BV constant to Int (only constants may cross sorts)
func toInt(t *Term) *Term {
	if t.width == IntSort {
		return t
	}
	if t.isC {
		return IntC(new(big.Int).SetUint64(t.cval))
	}
	panic("toInt: non-constant bit-vector mixed with Int-backed value")
}

func IntAdd(a, b *Term) *Term {
	if a.isC && b.isC {
		return IntC(new(big.Int).Add(a.big(), b.big()))
	}
	if a.isC && a.big().Sign() == 0 {
		return b
	}
	if b.isC && b.big().Sign() == 0 {
		return a
	}
	return mk(&Term{op: "+", args: []*Term{a, b}, width: IntSort})
}
func IntMulC(k *big.Int, a *Term) *Term {
	if a.isC {
		return IntC(new(big.Int).Mul(k, a.big()))
	}
	if k.Sign() == 0 {
		return IntC(big.NewInt(0))
	}
	if k.Cmp(big.NewInt(1)) == 0 {
		return a
	}
	return mk(&Term{op: "*", args: []*Term{IntC(k), a}, width: IntSort})
}
func IntCmp(op string, a, b *Term) *Term { // op in =,<,<=
	if a.isC && b.isC {
		c := a.big().Cmp(b.big())
		switch op {
		case "=":
			return Bool(c == 0)
		case "<":
			return Bool(c < 0)
		case "<=":
			return Bool(c <= 0)
		}
	}
	if a == b {
		return Bool(op != "<")
	}
	return mk(&Term{op: op, args: []*Term{a, b}, width: 0})
}

type termKey struct {
	op         string
	width      int
	cval       uint64
	isC        bool
	name       string
	p1, p2     int
	bigv       string
	a0, a1, a2 int
	n          int
}

var termTab sync.Map // termKey -> *Term
var termSeq int64

func init() {
	for _, w := range []int{1, 8, 16, 32, 64} {
		tab := make([]*Term, smallConsts)
		for v := 0; v < smallConsts; v++ {
			if w < 16 && v > int(mask(w)) {
				break
			}
			tab[v] = mkSlow(&Term{op: "const", width: w, cval: uint64(v), isC: true})
		}
		smallBV[w] = tab
	}
	boolT = mkSlow(&Term{op: "const", width: 0, cval: 1, isC: true})
	boolF = mkSlow(&Term{op: "const", width: 0, cval: 0, isC: true})
}

const smallConsts = 2048
const opaqueName = "opaque!byte"

// opaqueByte stands for one byte of text the engine does not model (most
// diagnostic formatting). It may be stored, copied and concatenated; a branch,
// assumption or assertion that depends on it aborts the run as unmodelled.
func opaqueByte() *Term { return Var(opaqueName, 8) }

func opaqueStr() *Str {
	b := make([]*Term, 8)
	for i := range b {
		b[i] = opaqueByte()
	}
	return &Str{b: b}
}

var smallBV = map[int][]*Term{}
var boolT, boolF *Term

func mk(t *Term) *Term { return mkSlow(t) }

func mkSlow(t *Term) *Term {
	k := termKey{op: t.op, width: t.width, cval: t.cval, isC: t.isC, name: t.name, p1: t.p1, p2: t.p2, bigv: t.bigv, n: len(t.args)}
	switch len(t.args) {
	case 0:
	case 1:
		k.a0 = t.args[0].id
	case 2:
		k.a0, k.a1 = t.args[0].id, t.args[1].id
	case 3:
		k.a0, k.a1, k.a2 = t.args[0].id, t.args[1].id, t.args[2].id
	default:
		panic("term with more than 3 arguments")
	}
	if e, ok := termTab.Load(k); ok {
		return e.(*Term)
	}
	for _, a := range t.args {
		if a.taint {
			t.taint = true
		}
	}
	if t.op == "var" && t.name == opaqueName {
		t.taint = true
	}
	t.id = int(atomic.AddInt64(&termSeq, 1))
	if e, loaded := termTab.LoadOrStore(k, t); loaded {
		return e.(*Term)
	}
	return t
}

func mask(w int) uint64 {
	if w >= 64 {
		return ^uint64(0)
	}
	return (uint64(1) << uint(w)) - 1
}

func BV(v uint64, w int) *Term { return mk(&Term{op: "const", width: w, cval: v & mask(w), isC: true}) }
func Bool(b bool) *Term {
	v := uint64(0)
	if b {
		v = 1
	}
	return mk(&Term{op: "const", width: 0, cval: v, isC: true})
}
func Var(name string, w int) *Term { return mk(&Term{op: "var", width: w, name: name}) }

func (t *Term) IsTrue() bool  { return t.isC && t.width == 0 && t.cval == 1 }
func (t *Term) IsFalse() bool { return t.isC && t.width == 0 && t.cval == 0 }

func sext(v uint64, w int) int64 {
	if w >= 64 {
		return int64(v)
	}
	if v&(1<<uint(w-1)) != 0 {
		return int64(v | ^mask(w))
	}
	return int64(v)
}

func BinBV(op string, a, b *Term) *Term {
	w := a.width
	if a.width != b.width {
		panic(fmt.Sprintf("width mismatch %s %d %d", op, a.width, b.width))
	}
	if a.isC && b.isC {
		x, y := a.cval, b.cval
		switch op {
		case "bvadd":
			return BV(x+y, w)
		case "bvsub":
			return BV(x-y, w)
		case "bvmul":
			return BV(x*y, w)
		case "bvand":
			return BV(x&y, w)
		case "bvor":
			return BV(x|y, w)
		case "bvxor":
			return BV(x^y, w)
		case "bvshl":
			if y >= uint64(w) {
				return BV(0, w)
			}
			return BV(x<<y, w)
		case "bvlshr":
			if y >= uint64(w) {
				return BV(0, w)
			}
			return BV(x>>y, w)
		case "bvashr":
			if y >= uint64(w) {
				y = uint64(w - 1)
			}
			return BV(uint64(sext(x, w)>>y), w)
		case "bvudiv":
			if y != 0 {
				return BV(x/y, w)
			}
		case "bvurem":
			if y != 0 {
				return BV(x%y, w)
			}
		case "bvsdiv":
			if y != 0 {
				return BV(uint64(sext(x, w)/sext(y, w)), w)
			}
		case "bvsrem":
			if y != 0 {
				return BV(uint64(sext(x, w)%sext(y, w)), w)
			}
		}
	}
	// identities
	switch op {
	case "bvadd", "bvor", "bvxor":
		if a.isC && a.cval == 0 {
			return b
		}
		if b.isC && b.cval == 0 {
			return a
		}
	case "bvsub", "bvshl", "bvlshr", "bvashr":
		if b.isC && b.cval == 0 {
			return a
		}
	case "bvand":
		if (a.isC && a.cval == 0) || (b.isC && b.cval == 0) {
			return BV(0, w)
		}
		if a.isC && a.cval == mask(w) {
			return b
		}
		if b.isC && b.cval == mask(w) {
			return a
		}
	}
	return mk(&Term{op: op, args: []*Term{a, b}, width: w})
}

func Cmp(op string, a, b *Term) *Term {
	if a.width == IntSort || b.width == IntSort {
		a, b = toInt(a), toInt(b)
		switch op {
		case "=":
			return IntCmp("=", a, b)
		case "bvult", "bvslt":
			return IntCmp("<", a, b)
		case "bvule", "bvsle":
			return IntCmp("<=", a, b)
		}
	}
	if a.width != b.width {
		panic(fmt.Sprintf("cmp width mismatch %s %d %d", op, a.width, b.width))
	}
	if a.isC && b.isC {
		x, y := a.cval, b.cval
		w := a.width
		switch op {
		case "=":
			return Bool(x == y)
		case "bvult":
			return Bool(x < y)
		case "bvule":
			return Bool(x <= y)
		case "bvslt":
			return Bool(sext(x, w) < sext(y, w))
		case "bvsle":
			return Bool(sext(x, w) <= sext(y, w))
		}
	}
	if a == b {
		switch op {
		case "=", "bvule", "bvsle":
			return Bool(true)
		default:
			return Bool(false)
		}
	}
	// syntactic interval pre-check (unsigned upper bounds only)
	if a.width > 0 && a.width <= 64 {
		switch op {
		case "bvult":
			if b.isC && ubound(a, 6) < b.cval {
				return Bool(true)
			}
			if a.isC && ubound(b, 6) <= a.cval {
				return Bool(false)
			}
			if b.isC && b.cval == 0 {
				return Bool(false)
			}
		case "bvule":
			if b.isC && ubound(a, 6) <= b.cval {
				return Bool(true)
			}
			if a.isC && ubound(b, 6) < a.cval {
				return Bool(false)
			}
			if a.isC && a.cval == 0 {
				return Bool(true)
			}
		case "=":
			if b.isC && ubound(a, 6) < b.cval {
				return Bool(false)
			}
			if a.isC && ubound(b, 6) < a.cval {
				return Bool(false)
			}
		case "bvslt", "bvsle":
			// both provably non-negative: same as unsigned
			top := uint64(1) << uint(a.width-1)
			if ubound(a, 6) < top && ubound(b, 6) < top {
				if op == "bvslt" {
					return Cmp("bvult", a, b)
				}
				return Cmp("bvule", a, b)
			}
		}
	}
	if op == "=" && a.width == 0 {
		if a.isC {
			if a.cval == 1 {
				return b
			}
			return Not(b)
		}
		if b.isC {
			if b.cval == 1 {
				return a
			}
			return Not(a)
		}
	}
	return mk(&Term{op: op, args: []*Term{a, b}, width: 0})
}

func Not(a *Term) *Term {
	if a.isC {
		return Bool(a.cval == 0)
	}
	if a.op == "not" {
		return a.args[0]
	}
	return mk(&Term{op: "not", args: []*Term{a}, width: 0})
}
func And(a, b *Term) *Term {
	if a.IsFalse() || b.IsFalse() {
		return Bool(false)
	}
	if a.IsTrue() {
		return b
	}
	if b.IsTrue() {
		return a
	}
	if a == b {
		return a
	}
	return mk(&Term{op: "and", args: []*Term{a, b}, width: 0})
}
func Or(a, b *Term) *Term {
	if a.IsTrue() || b.IsTrue() {
		return Bool(true)
	}
	if a.IsFalse() {
		return b
	}
	if b.IsFalse() {
		return a
	}
	if a == b {
		return a
	}
	return mk(&Term{op: "or", args: []*Term{a, b}, width: 0})
}
func Ite(c, a, b *Term) *Term {
	if c.IsTrue() {
		return a
	}
	if c.IsFalse() {
		return b
	}
	if a == b {
		return a
	}
	if a.width == 0 {
		if a.IsTrue() && b.IsFalse() {
			return c
		}
		if a.IsFalse() && b.IsTrue() {
			return Not(c)
		}
	}
	return mk(&Term{op: "ite", args: []*Term{c, a, b}, width: a.width})
}
func BvNot(a *Term) *Term {
	if a.isC {
		return BV(^a.cval, a.width)
	}
	return mk(&Term{op: "bvnot", args: []*Term{a}, width: a.width})
}
func BvNeg(a *Term) *Term {
	if a.isC {
		return BV(-a.cval, a.width)
	}
	return mk(&Term{op: "bvneg", args: []*Term{a}, width: a.width})
}
func Extract(a *Term, hi, lo int) *Term {
	w := hi - lo + 1
	if w == a.width {
		return a
	}
	if a.isC {
		return BV(a.cval>>uint(lo), w)
	}
	if (a.op == "zext" || a.op == "sext") && lo == 0 && hi < a.args[0].width {
		return Extract(a.args[0], hi, lo)
	}
	return mk(&Term{op: "extract", args: []*Term{a}, width: w, p1: hi, p2: lo})
}
func ZExt(a *Term, w int) *Term {
	if w == a.width {
		return a
	}
	if w < a.width {
		return Extract(a, w-1, 0)
	}
	if a.isC {
		return BV(a.cval, w)
	}
	return mk(&Term{op: "zext", args: []*Term{a}, width: w, p1: w - a.width})
}
func SExt(a *Term, w int) *Term {
	if w == a.width {
		return a
	}
	if w < a.width {
		return Extract(a, w-1, 0)
	}
	if a.isC {
		return BV(uint64(sext(a.cval, a.width)), w)
	}
	return mk(&Term{op: "sext", args: []*Term{a}, width: w, p1: w - a.width})
}

func sortStr(w int) string {
	if w == IntSort {
		return "Int"
	}
	if w == 0 {
		return "Bool"
	}
	return fmt.Sprintf("(_ BitVec %d)", w)
}

// smt printing with definitions emitted once per solver
func (t *Term) smtAtom() string {
	switch t.op {
	case "const":
		if t.width == IntSort {
			if strings.HasPrefix(t.bigv, "-") {
				return "(- " + t.bigv[1:] + ")"
			}
			return t.bigv
		}
		if t.width == 0 {
			if t.cval == 1 {
				return "true"
			}
			return "false"
		}
		return fmt.Sprintf("(_ bv%d %d)", t.cval, t.width)
	case "var":
		return smtName(t.name)
	}
	return fmt.Sprintf("t!%d", t.id)
}

func (t *Term) smtDef() string {
	as := make([]string, len(t.args))
	for i, a := range t.args {
		as[i] = a.smtAtom()
	}
	switch t.op {
	case "extract":
		return fmt.Sprintf("((_ extract %d %d) %s)", t.p1, t.p2, as[0])
	case "zext":
		return fmt.Sprintf("((_ zero_extend %d) %s)", t.p1, as[0])
	case "sext":
		return fmt.Sprintf("((_ sign_extend %d) %s)", t.p1, as[0])
	}
	if strings.HasPrefix(t.op, "uf:") {
		return "(uf_" + t.op[3:] + " " + strings.Join(as, " ") + ")"
	}
	return "(" + t.op + " " + strings.Join(as, " ") + ")"
}

// ubound returns a syntactic unsigned upper bound of a bit-vector term.
func ubound(t *Term, depth int) uint64 {
	if t.width <= 0 || t.width > 64 {
		return ^uint64(0)
	}
	if t.isC {
		return t.cval
	}
	m := mask(t.width)
	if depth == 0 {
		return m
	}
	switch t.op {
	case "zext":
		return ubound(t.args[0], depth-1)
	case "bvand":
		a, b := ubound(t.args[0], depth-1), ubound(t.args[1], depth-1)
		if a < b {
			return a
		}
		return b
	case "bvor", "bvxor":
		a, b := ubound(t.args[0], depth-1), ubound(t.args[1], depth-1)
		// next power of two minus one covering both
		x := a | b
		r := uint64(0)
		for r < x {
			r = r<<1 | 1
		}
		if r > m {
			r = m
		}
		return r
	case "bvlshr":
		if t.args[1].isC {
			sh := t.args[1].cval
			if sh >= 64 {
				return 0
			}
			return ubound(t.args[0], depth-1) >> sh
		}
		return ubound(t.args[0], depth-1)
	case "bvurem":
		if t.args[1].isC && t.args[1].cval > 0 {
			return t.args[1].cval - 1
		}
	case "bvudiv":
		if t.args[1].isC && t.args[1].cval > 0 {
			return ubound(t.args[0], depth-1) / t.args[1].cval
		}
	case "ite":
		a, b := ubound(t.args[1], depth-1), ubound(t.args[2], depth-1)
		if a > b {
			return a
		}
		return b
	case "extract":
		if t.p2 == 0 {
			a := ubound(t.args[0], depth-1)
			if a <= m {
				return a
			}
		}
	case "bvadd":
		a, b := ubound(t.args[0], depth-1), ubound(t.args[1], depth-1)
		if s := a + b; s >= a && s <= m {
			return s
		}
	}
	return m
}
