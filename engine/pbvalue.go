package main

import (
	"go/types"
	"strings"
)

// protoreflect.Value is implemented with unsafe in protobuf-go; the engine
// models it as a tagged union kept in field 1 of the (otherwise zero) struct.
// Kind-mismatch panics follow protobuf-go (Value.Bool on a string panics, …).
type pvTag struct {
	kind string // bool int32 int64 uint32 uint64 float32 float64 string bytes enum message list map
	v    Value
}

const prPkg = "google.golang.org/protobuf/reflect/protoreflect"

func (c *Ctx) pvType() types.Type {
	return c.prog.ImportedPackage(prPkg).Type("Value").Type()
}

func (c *Ctx) mkPV(kind string, v Value) Value {
	s := zero(c.pvType()).(*Struct)
	s.f[1] = pvTag{kind, v}
	return s
}

func pvOf(v Value) (pvTag, bool) {
	s, ok := v.(*Struct)
	if !ok || len(s.f) < 2 {
		return pvTag{}, false
	}
	t, ok := s.f[1].(pvTag)
	return t, ok
}

func (c *Ctx) pvPanic(t pvTag, want string) {
	k := t.kind
	if k == "" {
		k = "<invalid>"
	}
	panic(&goPanic{what: "protoreflect.Value: type mismatch: cannot convert " + k + " to " + want, pos: c.cp()})
}

func (c *Ctx) namedType(pkg, name string) types.Type {
	p := c.prog.ImportedPackage(pkg)
	if p == nil {
		c.errf("package %s not loaded", pkg)
	}
	return p.Type(name).Type()
}

func installPV(c *Ctx) {
	in := c.intrinsics
	mk := func(name, kind string) {
		in[prPkg+".ValueOf"+name] = func(c *Ctx, a []Value) Value { return c.mkPV(kind, a[0]) }
	}
	mk("Bool", "bool")
	mk("Int32", "int32")
	mk("Int64", "int64")
	mk("Uint32", "uint32")
	mk("Uint64", "uint64")
	mk("Float32", "float32")
	mk("Float64", "float64")
	mk("String", "string")
	mk("Bytes", "bytes")
	mk("Enum", "enum")
	in[prPkg+".ValueOfMessage"] = func(c *Ctx, a []Value) Value { return c.mkPV("message", a[0]) }
	in[prPkg+".ValueOfList"] = func(c *Ctx, a []Value) Value { return c.mkPV("list", a[0]) }
	in[prPkg+".ValueOfMap"] = func(c *Ctx, a []Value) Value { return c.mkPV("map", a[0]) }
	in[prPkg+".ValueOf"] = func(c *Ctx, a []Value) Value {
		i := a[0].(Iface)
		if i.t == nil {
			return zero(c.pvType())
		}
		if b, ok := i.t.Underlying().(*types.Basic); ok {
			switch b.Kind() {
			case types.Bool:
				return c.mkPV("bool", i.v)
			case types.Int32:
				if strings.HasSuffix(i.t.String(), "EnumNumber") {
					return c.mkPV("enum", i.v)
				}
				return c.mkPV("int32", i.v)
			case types.Int64:
				return c.mkPV("int64", i.v)
			case types.Uint32:
				return c.mkPV("uint32", i.v)
			case types.Uint64:
				return c.mkPV("uint64", i.v)
			case types.Float32:
				return c.mkPV("float32", i.v)
			case types.Float64:
				return c.mkPV("float64", i.v)
			case types.String:
				return c.mkPV("string", i.v)
			}
		}
		if sl, ok := i.t.Underlying().(*types.Slice); ok {
			if eb, ok := sl.Elem().Underlying().(*types.Basic); ok && eb.Kind() == types.Uint8 {
				return c.mkPV("bytes", i.v)
			}
		}
		// Message / List / Map implementations
		msgI := c.namedType(prPkg, "Message").Underlying().(*types.Interface)
		listI := c.namedType(prPkg, "List").Underlying().(*types.Interface)
		mapI := c.namedType(prPkg, "Map").Underlying().(*types.Interface)
		switch {
		case i.t == types.Type(pbMsgType) || types.Implements(i.t, msgI):
			return c.mkPV("message", i)
		case types.Implements(i.t, listI):
			return c.mkPV("list", i)
		case types.Implements(i.t, mapI):
			return c.mkPV("map", i)
		}
		panic(&goPanic{what: "protoreflect.ValueOf: invalid type " + i.t.String(), pos: c.cp()})
	}
	meth := func(name string, f func(c *Ctx, t pvTag) Value) {
		in["("+prPkg+".Value)."+name] = func(c *Ctx, a []Value) Value {
			t, _ := pvOf(a[0])
			return f(c, t)
		}
	}
	meth("IsValid", func(c *Ctx, t pvTag) Value { return Bool(t.kind != "") })
	meth("Bool", func(c *Ctx, t pvTag) Value {
		if t.kind != "bool" {
			c.pvPanic(t, "bool")
		}
		return t.v
	})
	meth("Int", func(c *Ctx, t pvTag) Value {
		switch t.kind {
		case "int32":
			return SExt(t.v.(*Term), 64)
		case "int64":
			return t.v
		}
		c.pvPanic(t, "int")
		return nil
	})
	meth("Uint", func(c *Ctx, t pvTag) Value {
		switch t.kind {
		case "uint32":
			return ZExt(t.v.(*Term), 64)
		case "uint64":
			return t.v
		}
		c.pvPanic(t, "uint")
		return nil
	})
	meth("Float", func(c *Ctx, t pvTag) Value {
		switch t.kind {
		case "float32", "float64":
			return t.v
		}
		c.pvPanic(t, "float")
		return nil
	})
	meth("String", func(c *Ctx, t pvTag) Value {
		if t.kind == "string" {
			return t.v
		}
		return strConst("<protoreflect.Value.String of non-string>")
	})
	meth("Bytes", func(c *Ctx, t pvTag) Value {
		if t.kind != "bytes" {
			c.pvPanic(t, "bytes")
		}
		return t.v
	})
	meth("Enum", func(c *Ctx, t pvTag) Value {
		if t.kind != "enum" {
			c.pvPanic(t, "enum")
		}
		return t.v
	})
	meth("Message", func(c *Ctx, t pvTag) Value {
		if t.kind != "message" {
			c.pvPanic(t, "message")
		}
		return t.v
	})
	meth("List", func(c *Ctx, t pvTag) Value {
		if t.kind != "list" {
			c.pvPanic(t, "list")
		}
		return t.v
	})
	meth("Map", func(c *Ctx, t pvTag) Value {
		if t.kind != "map" {
			c.pvPanic(t, "map")
		}
		return t.v
	})
	meth("Interface", func(c *Ctx, t pvTag) Value {
		bt := func(k types.BasicKind) types.Type { return types.Typ[k] }
		switch t.kind {
		case "":
			return Iface{}
		case "bool":
			return Iface{t: bt(types.Bool), v: t.v}
		case "int32":
			return Iface{t: bt(types.Int32), v: t.v}
		case "int64":
			return Iface{t: bt(types.Int64), v: t.v}
		case "uint32":
			return Iface{t: bt(types.Uint32), v: t.v}
		case "uint64":
			return Iface{t: bt(types.Uint64), v: t.v}
		case "float32":
			return Iface{t: bt(types.Float32), v: t.v}
		case "float64":
			return Iface{t: bt(types.Float64), v: t.v}
		case "string":
			return Iface{t: bt(types.String), v: t.v}
		case "bytes":
			return Iface{t: types.NewSlice(bt(types.Uint8)), v: t.v}
		case "enum":
			return Iface{t: c.namedType(prPkg, "EnumNumber"), v: t.v}
		}
		return t.v // message/list/map are already interface values
	})
	// MapKey is a Value underneath
	in["("+prPkg+".Value).MapKey"] = func(c *Ctx, a []Value) Value { return a[0] }
	in["("+prPkg+".MapKey).String"] = in["("+prPkg+".Value).String"]
	in["("+prPkg+".MapKey).Value"] = func(c *Ctx, a []Value) Value { return a[0] }
	in["("+prPkg+".MapKey).IsValid"] = in["("+prPkg+".Value).IsValid"]
	in["("+prPkg+".MapKey).Interface"] = in["("+prPkg+".Value).Interface"]
}
