package main

import (
	"context"
	"encoding/json"
	"fmt"
	"os"
	"os/exec"
	"path/filepath"
	"regexp"
	"strconv"
	"strings"
	"time"
)

type ReplayFile struct {
	Property string         `json:"property,omitempty"`
	Harness  string         `json:"harness"` // "<rel pkg>.<Func>"
	Pkg      string         `json:"pkg"`
	Func     string         `json:"func"`
	Params   map[string]int `json:"params"`
	Vectors  [][]NdVal      `json:"vectors"`
	Expect   []string       `json:"expect,omitempty"` // what the engine predicted per vector
	Note     string         `json:"note,omitempty"`
	Race     bool           `json:"race,omitempty"`   // run natively under the Go race detector
	Repeat   int            `json:"repeat,omitempty"` // run each vector this many times natively (behaviour that depends on Go map order)
}

var scratchRoot string

func scratch() string {
	if scratchRoot == "" {
		base := os.Getenv("TMPDIR")
		if base == "" {
			base = "/var/tmp"
		}
		d, err := os.MkdirTemp(base, "verif-")
		if err != nil {
			panic(err)
		}
		scratchRoot = d
	}
	return scratchRoot
}

func cleanupScratch() {
	if scratchRoot != "" {
		os.RemoveAll(scratchRoot)
	}
}

var reResult = regexp.MustCompile(`^VERIF-REPLAY-RESULT (\d+) (.*)$`)
var reBegin = regexp.MustCompile(`^VERIF-REPLAY-BEGIN (\d+)$`)

// nativeReplay compiles the real package with the harness overlaid and runs
// the harness on each concrete vector. One result string per vector:
// clean | diverged … | assert <label> | panic <msg> | fatal <msg> | timeout.
func nativeReplay(rf *ReplayFile, timeout time.Duration) ([]string, string, error) {
	dir := scratch()
	over, err := buildOverlay(true, map[string]string{rf.Pkg: rf.Func})
	if err != nil {
		return nil, "", err
	}
	odir, _ := os.MkdirTemp(dir, "ov-")
	repl := map[string]string{}
	i := 0
	for virt, content := range over {
		real := filepath.Join(odir, fmt.Sprintf("f%d.go", i))
		i++
		if err := os.WriteFile(real, content, 0o644); err != nil {
			return nil, "", err
		}
		repl[virt] = real
	}
	ob, _ := json.Marshal(map[string]interface{}{"Replace": repl})
	ovFile := filepath.Join(odir, "overlay.json")
	os.WriteFile(ovFile, ob, 0o644)
	rb, _ := json.MarshalIndent(rf, "", " ")
	rfile := filepath.Join(odir, "replay.json")
	os.WriteFile(rfile, rb, 0o644)

	ctx, cancel := context.WithTimeout(context.Background(), timeout+60*time.Second)
	defer cancel()
	args := []string{"test", "-overlay", ovFile, "-vet=off", "-count=1", "-run", "^TestVerifReplay$",
		"-timeout", fmt.Sprintf("%ds", int(timeout.Seconds())), "-v"}
	if rf.Race {
		args = append(args, "-race")
	}
	args = append(args, "./"+rf.Pkg)
	cmd := exec.CommandContext(ctx, "go", args...)
	cmd.Dir = repoDir
	cmd.Env = append(os.Environ(), "GOFLAGS=-mod=mod", "GOPROXY=off", "VERIF_REPLAY="+rfile)
	out, _ := cmd.CombinedOutput()
	os.RemoveAll(odir)
	text := string(out)
	res := make([]string, len(rf.Vectors))
	begun := -1
	for _, l := range strings.Split(text, "\n") {
		l = strings.TrimSpace(l)
		if m := reBegin.FindStringSubmatch(l); m != nil {
			begun, _ = strconv.Atoi(m[1])
		}
		if m := reResult.FindStringSubmatch(l); m != nil {
			k, _ := strconv.Atoi(m[1])
			if k < len(res) {
				res[k] = m[2]
			}
		}
	}
	if rf.Race && strings.Contains(text, "WARNING: DATA RACE") {
		// the race detector reports per process, not per vector
		for k := range res {
			if res[k] == "clean" || res[k] == "" {
				res[k] = "fatal DATA RACE reported by the Go race detector"
			}
		}
	}
	if begun >= 0 && begun < len(res) && res[begun] == "" {
		switch {
		case strings.Contains(text, "test timed out"):
			res[begun] = "timeout"
		case strings.Contains(text, "fatal error:"):
			msg := text[strings.Index(text, "fatal error:"):]
			if j := strings.Index(msg, "\n"); j > 0 {
				msg = msg[:j]
			}
			res[begun] = "fatal " + msg
		default:
			res[begun] = "fatal process died"
		}
	}
	// a vector that killed the process (fatal error, timeout) leaves the later
	// ones unrun: replay those in a fresh process
	if begun >= 0 && begun+1 < len(res) && res[begun+1] == "" && (strings.HasPrefix(res[begun], "fatal") || res[begun] == "timeout") {
		rest := *rf
		rest.Vectors = rf.Vectors[begun+1:]
		if len(rf.Expect) > begun+1 {
			rest.Expect = rf.Expect[begun+1:]
		}
		more, _, err := nativeReplay(&rest, timeout)
		if err == nil {
			copy(res[begun+1:], more)
		}
	}
	if begun < 0 && len(rf.Vectors) > 0 {
		tail := text
		if len(tail) > 3000 {
			tail = tail[len(tail)-3000:]
		}
		return res, text, fmt.Errorf("native replay did not start (build failure?):\n%s", tail)
	}
	return res, text, nil
}

func reproduced(res string) bool {
	return strings.HasPrefix(res, "assert ") || strings.HasPrefix(res, "panic ") || strings.HasPrefix(res, "fatal ") || res == "timeout"
}
