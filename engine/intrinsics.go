package main

import (
	"fmt"
	"go/types"
	"math/big"
	"unicode"
)

func (c *Ctx) ndVar(name, kind string, w int) *Term {
	k := c.ndSeq[name]
	c.ndSeq[name] = k + 1
	v := Var(fmt.Sprintf("%s_%d", name, k), w)
	c.ndTrace = append(c.ndTrace, ndRec{Name: name, Kind: kind, t: v})
	return v
}

func cstr(v Value) string {
	s, ok := v.(*Str).concrete()
	if !ok {
		panic(engineErr{"non-concrete name/label string passed to a verif intrinsic"})
	}
	return s
}

func (c *Ctx) errorValue(msg string) Value {
	ep := c.prog.ImportedPackage("errors")
	t := ep.Type("errorString").Type()
	slot := new(Value)
	*slot = &Struct{f: []Value{strConst(msg)}}
	return Iface{t: types.NewPointer(t), v: &Ptr{slot: slot}}
}

// uniPred: exact table below 0x100 (run-length compressed), uninterpreted (but
// functional: one Boolean per distinct argument term) above.
func uniPred(name string, f func(rune) bool) func(c *Ctx, args []Value) Value {
	return func(c *Ctx, args []Value) Value {
		r := args[0].(*Term)
		if r.isC {
			return Bool(f(rune(int32(r.cval))))
		}
		acc := mk(&Term{op: "uf:" + name, args: []*Term{r}, width: 0}) // functional: equal runes get equal answers
		low := Bool(false)
		k := 0
		for k < 0x100 {
			if !f(rune(k)) {
				k++
				continue
			}
			j := k
			for j+1 < 0x100 && f(rune(j+1)) {
				j++
			}
			if j == k {
				low = Or(low, Cmp("=", r, BV(uint64(k), 32)))
			} else {
				low = Or(low, And(Cmp("bvule", BV(uint64(k), 32), r), Cmp("bvule", r, BV(uint64(j), 32))))
			}
			k = j + 1
		}
		isLow := Cmp("bvult", r, BV(0x100, 32))
		return Ite(isLow, low, acc)
	}
}

func installHarnessAPI(c *Ctx, hpkgs []string) {
	in := c.intrinsics
	for _, hp := range hpkgs {
		p := hp
		in[p+".ndByte"] = func(c *Ctx, a []Value) Value { return c.ndVar(cstr(a[0]), "byte", 8) }
		in[p+".ndRune"] = func(c *Ctx, a []Value) Value { return c.ndVar(cstr(a[0]), "rune", 32) }
		in[p+".ndInt32"] = func(c *Ctx, a []Value) Value { return c.ndVar(cstr(a[0]), "int32", 32) }
		in[p+".ndUint32"] = func(c *Ctx, a []Value) Value { return c.ndVar(cstr(a[0]), "uint32", 32) }
		in[p+".ndInt64"] = func(c *Ctx, a []Value) Value { return c.ndVar(cstr(a[0]), "int64", 64) }
		in[p+".ndUint64"] = func(c *Ctx, a []Value) Value { return c.ndVar(cstr(a[0]), "uint64", 64) }
		in[p+".ndInt"] = func(c *Ctx, a []Value) Value { return c.ndVar(cstr(a[0]), "int", 64) }
		in[p+".ndBool"] = func(c *Ctx, a []Value) Value { return c.ndVar(cstr(a[0]), "bool", 0) }
		in[p+".ndIntRange"] = func(c *Ctx, a []Value) Value {
			lo, hi := int(sext(a[1].(*Term).cval, 64)), int(sext(a[2].(*Term).cval, 64))
			name := cstr(a[0])
			if hi < lo {
				c.errf("ndIntRange(%s): empty range", name)
			}
			k := c.chooseFree(hi - lo + 1)
			res := BV(uint64(lo+k), 64)
			c.ndTrace = append(c.ndTrace, ndRec{Name: name, Kind: "range", t: res})
			return res
		}
		in[p+".ndChoice"] = func(c *Ctx, a []Value) Value {
			name := cstr(a[0])
			n := int(a[1].(*Term).cval)
			if n <= 0 {
				c.errf("ndChoice(%s): n<=0", name)
			}
			k := c.chooseFree(n)
			res := BV(uint64(k), 64)
			c.ndTrace = append(c.ndTrace, ndRec{Name: name, Kind: "choice", t: res})
			return res
		}
		in[p+".ndByteInt"] = func(c *Ctx, a []Value) Value {
			name := cstr(a[0])
			k := c.ndSeq[name]
			c.ndSeq[name] = k + 1
			v := IntVar(fmt.Sprintf("%s_%d", name, k))
			c.ndTrace = append(c.ndTrace, ndRec{Name: name, Kind: "byteint", t: v})
			c.addPC(intBetween(v, 0, 255))
			return v
		}
		in[p+".verifParam"] = func(c *Ctx, a []Value) Value {
			name := cstr(a[0])
			if v, ok := c.ex.spec.Params[name]; ok {
				return BV(uint64(int64(v)), 64)
			}
			return a[1]
		}
		in[p+".verifSpawn"] = func(c *Ctx, a []Value) Value { c.spawn(a[0].(*Closure)); return nil }
		in[p+".verifJoin"] = func(c *Ctx, a []Value) Value { c.join(); return nil }
		in[p+".verifAssume"] = func(c *Ctx, a []Value) Value {
			t := a[0].(*Term)
			if c.replaying() {
				c.addPC(t)
				return nil
			}
			if !c.feasible(t) {
				panic(abortPath{"assume"})
			}
			c.addPC(t)
			return nil
		}
		in[p+".verifAssert"] = func(c *Ctx, a []Value) Value {
			c.stats.asserts++
			t := a[0].(*Term)
			label := cstr(a[1])
			c.reach[label]++
			if c.replaying() {
				c.addPC(t)
				return nil
			}
			if t.IsTrue() {
				return nil
			}
			if bad, v := c.violable(Not(t)); v {
				c.reportViolation("assert", label, bad)
				if !c.feasible(t) {
					panic(abortPath{"assert always fails"})
				}
			}
			c.addPC(t)
			return nil
		}
		in[p+".verifAll"] = func(c *Ctx, a []Value) Value {
			s := a[0].(Slice)
			r := Bool(true)
			for k := 0; k < s.len; k++ {
				r = And(r, s.back.e[s.off+k].(*Term))
			}
			return r
		}
		in[p+".verifAny"] = func(c *Ctx, a []Value) Value {
			s := a[0].(Slice)
			r := Bool(false)
			for k := 0; k < s.len; k++ {
				r = Or(r, s.back.e[s.off+k].(*Term))
			}
			return r
		}
		in[p+".verifIte"] = func(c *Ctx, a []Value) Value {
			return Ite(a[0].(*Term), a[1].(*Term), a[2].(*Term))
		}
		in[p+".verifFail"] = func(c *Ctx, a []Value) Value {
			// a point that must be unreachable; not subject to the vacuity guard
			c.stats.asserts++
			if !c.replaying() {
				c.reportViolation("assert", cstr(a[0]), Bool(true))
			}
			panic(abortPath{"assert always fails"})
		}
		in[p+".verifReach"] = func(c *Ctx, a []Value) Value { c.reach[cstr(a[0])]++; return nil }
		// verifNative: false in the engine, true in the natively compiled replay (lets a
		// harness hand the real runtime's own objects to the code under test there)
		in[p+".verifNative"] = func(c *Ctx, a []Value) Value { return Bool(false) }
		in[p+".verifKnownClass"] = func(c *Ctx, a []Value) Value {
			c.kf = append(c.kf, kfClass{id: cstr(a[0]), cond: a[1].(*Term)})
			return nil
		}
		in[p+".verifPanic"] = func(c *Ctx, a []Value) Value {
			panic(&goPanic{what: "verifPanic:" + cstr(a[0]), pos: c.cp()})
		}
		in[p+".verifTermBudget"] = func(c *Ctx, a []Value) Value {
			c.termBudget = int(a[0].(*Term).cval)
			c.stepMax = c.steps + c.termBudget
			return nil
		}
		in[p+".verifEndTermBudget"] = func(c *Ctx, a []Value) Value {
			c.termBudget = 0
			c.stepMax = 50000000
			return nil
		}
	}
}

func installCommon(c *Ctx) {
	in := c.intrinsics
	in["log.Printf"] = func(c *Ctx, a []Value) Value { return nil }
	in["log.Println"] = func(c *Ctx, a []Value) Value { return nil }
	in["log.Print"] = func(c *Ctx, a []Value) Value { return nil }
	in["regexp.MustCompile"] = func(c *Ctx, a []Value) Value { return (*Ptr)(nil) }
	in["unicode.IsSpace"] = uniPred("IsSpace", unicode.IsSpace)
	in["unicode.IsDigit"] = uniPred("IsDigit", unicode.IsDigit)
	in["unicode.IsLetter"] = uniPred("IsLetter", unicode.IsLetter)
	in["unicode.IsUpper"] = uniPred("IsUpper", unicode.IsUpper)
	in["unicode.IsLower"] = uniPred("IsLower", unicode.IsLower)
	in["unicode.IsPrint"] = uniPred("IsPrint", unicode.IsPrint)
	in["unicode.IsControl"] = uniPred("IsControl", unicode.IsControl)
	in["errors.New"] = func(c *Ctx, a []Value) Value {
		if s, ok := a[0].(*Str); ok {
			if cs, ok := s.concrete(); ok {
				return c.errorValue(cs)
			}
		}
		return c.errorValue("opaque error")
	}
	in["math/bits.Len32"] = func(c *Ctx, a []Value) Value {
		x := a[0].(*Term)
		res := BV(0, 64)
		for k := 0; k < 32; k++ {
			bit := Cmp("=", Extract(x, k, k), BV(1, 1))
			res = Ite(bit, BV(uint64(k+1), 64), res)
		}
		return res
	}
	in["math/bits.Len64"] = func(c *Ctx, a []Value) Value {
		x := a[0].(*Term)
		res := BV(0, 64)
		for k := 0; k < 64; k++ {
			bit := Cmp("=", Extract(x, k, k), BV(1, 1))
			res = Ite(bit, BV(uint64(k+1), 64), res)
		}
		return res
	}
	in["(*sync.Mutex).Lock"] = func(c *Ctx, a []Value) Value { c.lock(a[0].(*Ptr).slot); return nil }
	in["(*sync.Mutex).Unlock"] = func(c *Ctx, a []Value) Value { c.unlock(a[0].(*Ptr).slot); return nil }
	// RWMutex: writers exclusive, readers shared (sched.go rlock/runlock)
	in["(*sync.RWMutex).Lock"] = in["(*sync.Mutex).Lock"]
	in["(*sync.RWMutex).Unlock"] = in["(*sync.Mutex).Unlock"]
	in["(*sync.RWMutex).RLock"] = func(c *Ctx, a []Value) Value { c.rlock(a[0].(*Ptr).slot); return nil }
	in["(*sync.RWMutex).RUnlock"] = func(c *Ctx, a []Value) Value { c.runlock(a[0].(*Ptr).slot); return nil }
	// sync.Map: a plain engine map per instance (single-threaded use; with
	// logical threads every operation is a tracked shared access)
	smap := func(c *Ctx, recv Value) *Map {
		p := recv.(*Ptr)
		if c.syncMaps == nil {
			c.syncMaps = map[*Value]*Map{}
		}
		m := c.syncMaps[p.slot]
		if m == nil {
			m = &Map{}
			c.syncMaps[p.slot] = m
		}
		return m
	}
	in["(*sync.Map).Load"] = func(c *Ctx, a []Value) Value {
		m := smap(c, a[0])
		c.visible(m, false, "sync.Map")
		if len(m.keys) == 0 {
			return Tuple{Iface{}, Bool(false)}
		}
		v, ok := c.mapLookup(m, a[1], types.NewInterfaceType(nil, nil))
		return Tuple{v, ok}
	}
	in["(*sync.Map).Store"] = func(c *Ctx, a []Value) Value {
		m := smap(c, a[0])
		c.visible(m, true, "sync.Map")
		c.mapUpdate(m, a[1], a[2])
		return nil
	}
	// sync.Pool: a bag of items per pool. Get may hand out any item that was Put
	// (here: the most recent one) or a fresh one from New — a free choice, since
	// the runtime may drop pooled items at any time. Put happens-before the Get
	// that returns the item.
	in["(*sync.Pool).Put"] = func(c *Ctx, a []Value) Value {
		p := a[0].(*Ptr)
		if c.pools == nil {
			c.pools = map[*Value][]pooled{}
		}
		it := pooled{v: a[1]}
		if c.sched != nil {
			me := c.sched.me()
			it.vc = append([]int{}, me.vc...)
			me.vc[me.id]++
		}
		c.syncPoint()
		c.pools[p.slot] = append(c.pools[p.slot], it)
		return nil
	}
	in["(*sync.Pool).Get"] = func(c *Ctx, a []Value) Value {
		p := a[0].(*Ptr)
		c.syncPoint()
		items := c.pools[p.slot]
		if len(items) > 0 && c.chooseFree(2) == 0 {
			it := items[len(items)-1]
			c.pools[p.slot] = items[:len(items)-1]
			if c.sched != nil && it.vc != nil {
				me := c.sched.me()
				me.vc = vcMax(me.vc, it.vc)
			}
			return it.v
		}
		// New
		st, _ := c.curCallee.Signature.Recv().Type().(*types.Pointer).Elem().Underlying().(*types.Struct)
		sv, _ := (*p.slot).(*Struct)
		if st != nil && sv != nil {
			for i := 0; i < st.NumFields(); i++ {
				if st.Field(i).Name() == "New" {
					if cl, ok := sv.f[i].(*Closure); ok && cl != nil {
						return c.invoke(cl, nil)
					}
				}
			}
		}
		return Iface{}
	}
	in["github.com/pentops/j5/internal/bcl/errpos.AddSource"] = func(c *Ctx, a []Value) Value { return a[0] }
}

type pooled struct {
	v  Value
	vc []int
}

var _ = big.NewInt
