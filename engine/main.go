package main

import (
	"encoding/json"
	"flag"
	"fmt"
	"os"
	"runtime/pprof"
	"strconv"
	"strings"
)

func installAll(c *Ctx, hpkgs []string, cuts []string) {
	installHarnessAPI(c, hpkgs)
	installCommon(c)
	installNative(c)
	installPB(c)
	installPV(c)
	installReflect(c)
	installNum(c)
	installStr(c)
	installBig(c, hpkgs)
	installDeepEq(c, hpkgs)
	installCuts(c, cuts)
}

// installCuts replaces named real functions for one harness; every cut is
// listed in the evidence of the harness that uses it.
func installCuts(c *Ctx, cuts []string) {
	have := map[string]bool{}
	for _, k := range cuts {
		have[k] = true
	}
	if !have["errpos.AddSource=identity"] {
		delete(c.intrinsics, "github.com/pentops/j5/internal/bcl/errpos.AddSource")
	}
	for _, k := range cuts {
		// generic form: "<full ssa function name>=><pkg rel>.<harness func>"
		if i := strings.Index(k, "=>"); i > 0 {
			target, repl := k[:i], k[i+2:]
			j := strings.LastIndex(repl, ".")
			pkg, fn := modulePath+"/"+repl[:j], repl[j+1:]
			c.intrinsics[target] = func(c *Ctx, a []Value) Value {
				p := c.prog.ImportedPackage(pkg)
				if p == nil || p.Func(fn) == nil {
					panic(engineErr{"cut replacement not found: " + repl})
				}
				return c.call(p.Func(fn), a)
			}
		}
	}
}

func usage() {
	fmt.Fprintln(os.Stderr, `usage:
  gosx check <Cnn> [-tier quick|thorough] [-only HarnessFunc]
  gosx run -pkg <rel pkg> -func <Harness> [-p k=v ...] [-workers N] [-max-paths N] [-cut name ...]
  gosx replay <file.json>`)
	os.Exit(2)
}

type multi []string

func (m *multi) String() string     { return strings.Join(*m, ",") }
func (m *multi) Set(s string) error { *m = append(*m, s); return nil }

func main() {
	if len(os.Args) < 2 {
		usage()
	}
	if w := os.Getenv("VERIF_WORKERS"); w != "" {
		if n, err := strconv.Atoi(w); err == nil && n > 0 {
			defaultWorkers = n
		}
	}
	code := 0
	if pf := os.Getenv("VERIF_PROF"); pf != "" {
		f, _ := os.Create(pf)
		pprof.StartCPUProfile(f)
		defer pprof.StopCPUProfile()
	}
	func() {
		defer cleanupScratch()
		switch os.Args[1] {
		case "check":
			fs := flag.NewFlagSet("check", flag.ExitOnError)
			tier := fs.String("tier", envOr("VERIF_TIER", "quick"), "quick|thorough")
			only := fs.String("only", "", "run a single harness (no evidence written)")
			if len(os.Args) < 3 {
				usage()
			}
			fs.Parse(os.Args[3:])
			code = runCheck(os.Args[2], *tier, *only)
		case "version":
			fmt.Println("gosx engine ok; solver:", solverVersion(solverBin))
		case "replay":
			if len(os.Args) < 3 {
				usage()
			}
			code = runReplayFile(os.Args[2])
		case "run":
			fs := flag.NewFlagSet("run", flag.ExitOnError)
			pkg := fs.String("pkg", "", "package dir relative to the repo root")
			fn := fs.String("func", "", "harness function")
			workers := fs.Int("workers", 0, "worker count")
			maxPaths := fs.Int("max-paths", 0, "stop after N paths")
			timeout := fs.Int("timeout", 0, "seconds")
			term := fs.Int("term-budget", 0, "interpreter-step budget treated as a termination bound")
			var ps, cuts multi
			fs.Var(&ps, "p", "harness parameter k=v")
			fs.Var(&cuts, "cut", "named cut")
			fs.Parse(os.Args[2:])
			params := map[string]int{}
			for _, kv := range ps {
				i := strings.Index(kv, "=")
				n, _ := strconv.Atoi(kv[i+1:])
				params[kv[:i]] = n
			}
			code = runOne(*pkg, *fn, params, *workers, *maxPaths, *timeout, *term, cuts)
		default:
			usage()
		}
	}()
	pprof.StopCPUProfile()
	os.Exit(code)
}

// runOne is the development entry: one harness, summary on stdout.
func runOne(pkg, fn string, params map[string]int, workers, maxPaths, timeout, term int, cuts []string) int {
	P, err := loadProgram([]string{pkg})
	if err != nil {
		fmt.Fprintln(os.Stderr, "ERROR:", err)
		return 2
	}
	fmt.Printf("loaded in %.1fs\n", P.load.Seconds())
	sp := P.pkgs[modulePath+"/"+pkg]
	if sp == nil || sp.Func(fn) == nil {
		fmt.Fprintln(os.Stderr, "no such harness")
		return 2
	}
	known, _ := loadKnown()
	ex := &Explorer{prog: P.prog, fn: sp.Func(fn), hpkgs: P.hpkgs, kfOpen: map[string]*KnownFinding{},
		spec: HarnessSpec{Pkg: pkg, Func: fn, Params: params, Workers: workers, MaxPaths: maxPaths, TimeoutS: timeout, TermBudget: term}}
	for _, k := range known {
		if k.Status == "open" && (k.Harness == "" || k.Harness == fn) {
			ex.kfOpen[k.ID] = k
		}
	}
	ex.install = func(c *Ctx) { installAll(c, P.hpkgs, cuts) }
	ex.Run()
	fmt.Printf("paths=%d completed=%d aborted=%d (assume-drops %d) inconclusive=%d choice=%d asserts=%d implicit=%d queries=%d (sat %d unsat %d unknown %d) solver=%.1fs maxq=%.2fs wall=%.1fs terms=%d truncated=%v\n",
		ex.Paths, ex.Completed, ex.Aborted, ex.AssumeDrops, ex.Inconclusive, ex.Choice, ex.Asserts, ex.Implicit, ex.Queries, ex.Sat, ex.Unsat, ex.Unknown,
		ex.SolverTime.Seconds(), ex.MaxQuery.Seconds(), ex.Wall.Seconds(), termSeq, ex.truncated)
	for _, e := range ex.engineErrs {
		fmt.Println("ENGINE-ERROR:", e)
	}
	for _, s := range dedupe(ex.incomplete) {
		fmt.Println("INCOMPLETE:", s)
	}
	fmt.Println("reach:", fmtReach(ex.reach))
	for _, l := range staticLabels(P.prog, ex.fn) {
		if ex.reach[l] == 0 {
			fmt.Println("UNREACHED label:", l)
		}
	}
	for _, a := range ex.sortedViolations() {
		v := a.First
		fmt.Printf("%4d x %s %q at %s known=%q\n       inputs %s\n       stack %s\n", a.Count, v.Kind, v.Label, relPos(v.Pos), v.Known, vecString(v.Vector), v.Stack)
	}
	for i, s := range ex.samples {
		if i < 3 {
			fmt.Printf("sample path %v inputs %s\n", s.Prefix, vecString(s.Vector))
		}
	}
	if os.Getenv("VERIF_DUMP") != "" {
		b, _ := json.MarshalIndent(ex.sortedViolations(), "", " ")
		os.WriteFile(os.Getenv("VERIF_DUMP"), b, 0o644)
	}
	if len(ex.engineErrs) > 0 || len(ex.incomplete) > 0 {
		return 2
	}
	if len(ex.viols) > 0 {
		return 1
	}
	return 0
}

func fmtReach(m map[string]int) string {
	var sb strings.Builder
	for _, k := range sortedKeys(m) {
		fmt.Fprintf(&sb, "%s=%d ", k, m[k])
	}
	return sb.String()
}
