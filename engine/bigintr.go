package main

import (
	"fmt"
	"math/big"
	"sync"
)

var b62 = big.NewInt(62)
var b256 = big.NewInt(256)

func pow(b *big.Int, n int) *big.Int { return new(big.Int).Exp(b, big.NewInt(int64(n)), nil) }

func intSubC(a *Term, k int64) *Term { return IntAdd(a, IntC(big.NewInt(-k))) }
func intBetween(c *Term, lo, hi int64) *Term {
	return And(IntCmp("<=", IntC(big.NewInt(lo)), c), IntCmp("<=", c, IntC(big.NewInt(hi))))
}

var digitMemo = map[*Term]*Term{}
var digitMu sync.Mutex

func char62(d *Term) *Term {
	lt := func(k int64) *Term { return IntCmp("<", d, IntC(big.NewInt(k))) }
	ch := Ite(lt(10), IntAdd(d, IntC(big.NewInt(48))), Ite(lt(36), IntAdd(d, IntC(big.NewInt(87))), IntAdd(d, IntC(big.NewInt(29)))))
	digitMu.Lock()
	digitMemo[ch] = d
	digitMu.Unlock()
	return ch
}

func digitLookup(c *Term) (*Term, bool) {
	digitMu.Lock()
	defer digitMu.Unlock()
	d, ok := digitMemo[c]
	return d, ok
}

func digitval62(c *Term) *Term {
	if d, ok := digitLookup(c); ok {
		return d
	}
	return Ite(intBetween(c, 48, 57), intSubC(c, 48), Ite(intBetween(c, 97, 122), intSubC(c, 87), intSubC(c, 29)))
}
func isDigit62(c *Term) *Term {
	if _, ok := digitLookup(c); ok {
		return Bool(true)
	}
	return Or(intBetween(c, 48, 57), Or(intBetween(c, 97, 122), intBetween(c, 65, 90)))
}

func (c *Ctx) fresh(prefix string) *Term {
	c.freshSeq++
	return IntVar(fmt.Sprintf("%s!%d", prefix, c.freshSeq))
}

type bigState struct {
	abs *Term
	ub  *big.Int // exclusive upper bound known syntactically
	src []*Term  // when abs was built by SetBytes: the big-endian byte terms
}

func installBig(c *Ctx, hpkgs []string) {
	in := c.intrinsics
	get := func(c *Ctx, p *Ptr) *bigState {
		if c.bigs == nil {
			c.bigs = map[*Value]*bigState{}
		}
		st := c.bigs[p.slot]
		if st == nil {
			st = &bigState{abs: IntC(big.NewInt(0)), ub: big.NewInt(1)}
			c.bigs[p.slot] = st
		}
		return st
	}
	in["(*math/big.Int).SetBytes"] = func(c *Ctx, a []Value) Value {
		z := a[0].(*Ptr)
		s := a[1].(Slice)
		v := IntC(big.NewInt(0))
		for k := 0; k < s.len; k++ {
			v = IntAdd(v, IntMulC(pow(b256, s.len-1-k), toInt(s.back.e[s.off+k].(*Term))))
		}
		st := get(c, z)
		st.abs, st.ub = v, pow(b256, s.len)
		st.src = nil
		for k := 0; k < s.len; k++ {
			st.src = append(st.src, s.back.e[s.off+k].(*Term))
		}
		if c.srcMemo == nil {
			c.srcMemo = map[*Term][]*Term{}
		}
		c.srcMemo[v] = st.src
		return z
	}
	in["(*math/big.Int).Text"] = func(c *Ctx, a []Value) Value {
		st := get(c, a[0].(*Ptr))
		base := a[1].(*Term)
		if !base.isC || base.cval != 62 {
			c.errf("big.Int.Text: only base 62 modelled")
		}
		maxd := 1
		for pow(b62, maxd).Cmp(st.ub) < 0 {
			maxd++
		}
		gs := make([]*Term, maxd)
		for n := 1; n <= maxd; n++ {
			lo := pow(b62, n-1)
			if n == 1 {
				lo = big.NewInt(0)
			}
			gs[n-1] = And(IntCmp("<=", IntC(lo), st.abs), IntCmp("<", st.abs, IntC(pow(b62, n))))
		}
		n := c.choose(gs) + 1
		out := &Str{}
		sum := IntC(big.NewInt(0))
		for k := 0; k < n; k++ {
			d := c.fresh("dig")
			c.addPC(intBetween(d, 0, 61))
			ch := char62(d)
			out.b = append(out.b, ch)
			sum = IntAdd(sum, IntMulC(pow(b62, n-1-k), d))
		}
		c.addPC(IntCmp("=", st.abs, sum))
		if c.eqMemo == nil {
			c.eqMemo = map[*Term]*Term{}
		}
		c.eqMemo[sum] = st.abs // the digit sum is known equal to the (simpler) source expression
		return out
	}
	in["(*math/big.Int).SetString"] = func(c *Ctx, a []Value) Value {
		z := a[0].(*Ptr)
		s := a[1].(*Str)
		base := a[2].(*Term)
		if !base.isC || base.cval != 62 {
			c.errf("big.Int.SetString: only base 62 modelled")
		}
		chars := s.b
		fail := Tuple{(*Ptr)(nil), Bool(false)}
		if len(chars) == 0 {
			return fail
		}
		first := toIntAny(chars[0])
		sign := Or(IntCmp("=", first, IntC(big.NewInt('+'))), IntCmp("=", first, IntC(big.NewInt('-'))))
		if c.branch(sign) {
			chars = chars[1:]
			if len(chars) == 0 {
				return fail
			}
		}
		ok := Bool(true)
		for _, ch := range chars {
			ok = And(ok, isDigit62(toIntAny(ch)))
		}
		if !c.branch(ok) {
			return fail
		}
		// one bounded integer per digit value (the bounds reach the arithmetic
		// solver directly instead of through the if-then-else of the alphabet)
		sum := IntC(big.NewInt(0))
		for k, ch := range chars {
			dv := digitval62(toIntAny(ch))
			if !dv.isC {
				v := c.fresh("dig")
				c.addPC(intBetween(v, 0, 61))
				c.addPC(IntCmp("=", v, dv))
				dv = v
			}
			sum = IntAdd(sum, IntMulC(pow(b62, len(chars)-1-k), dv))
		}
		st := get(c, z)
		st.abs, st.ub = sum, pow(b62, len(chars))
		st.src = nil
		if rep, ok := c.eqMemo[sum]; ok {
			st.abs = rep
			st.src = c.srcMemo[rep]
		}
		return Tuple{z, Bool(true)}
	}
	in["(*math/big.Int).Bytes"] = func(c *Ctx, a []Value) Value {
		st := get(c, a[0].(*Ptr))
		if st.src != nil {
			// Bytes(SetBytes(b)) = b without its leading zero bytes: cancel at
			// term construction, case-splitting on the count of leading zeros.
			n := len(st.src)
			gs := make([]*Term, n+1)
			allz := Bool(true)
			for j := 0; j < n; j++ {
				isz := Cmp("=", st.src[j], zeroLike(st.src[j]))
				gs[j] = And(allz, Not(isz))
				allz = And(allz, isz)
			}
			gs[n] = allz
			j := c.chooseX(gs, true)
			arr := &Arr{e: make([]Value, n-j)}
			for k := j; k < n; k++ {
				arr.e[k-j] = st.src[k]
			}
			return Slice{back: arr, len: n - j, cap: n - j}
		}
		maxb := 0
		for pow(b256, maxb).Cmp(st.ub) < 0 {
			maxb++
		}
		gs := make([]*Term, maxb+1)
		gs[0] = IntCmp("=", st.abs, IntC(big.NewInt(0)))
		for m := 1; m <= maxb; m++ {
			gs[m] = And(IntCmp("<=", IntC(pow(b256, m-1)), st.abs), IntCmp("<", st.abs, IntC(pow(b256, m))))
		}
		m := c.choose(gs)
		arr := &Arr{e: make([]Value, m)}
		sum := IntC(big.NewInt(0))
		for k := 0; k < m; k++ {
			bt := c.fresh("byt")
			c.addPC(intBetween(bt, 0, 255))
			arr.e[k] = bt
			sum = IntAdd(sum, IntMulC(pow(b256, m-1-k), bt))
		}
		c.addPC(IntCmp("=", st.abs, sum))
		return Slice{back: arr, len: m, cap: m}
	}
}

func toIntAny(t *Term) *Term {
	if t.width == IntSort {
		return t
	}
	return toInt(t)
}

func zeroLike(t *Term) *Term {
	if t.width == IntSort {
		return IntC(big.NewInt(0))
	}
	return BV(0, t.width)
}
