package main

import (
	"fmt"
	"path"
	"reflect"
	"strings"

	"github.com/iancoleman/strcase"
)

type notConcrete struct{}

func toNative(v Value, t reflect.Type) reflect.Value {
	switch t.Kind() {
	case reflect.String:
		s, ok := v.(*Str).concrete()
		if !ok {
			panic(notConcrete{})
		}
		return reflect.ValueOf(s).Convert(t)
	case reflect.Int, reflect.Int64, reflect.Int32:
		tm := v.(*Term)
		if !tm.isC {
			panic(notConcrete{})
		}
		return reflect.ValueOf(sext(tm.cval, tm.width)).Convert(t)
	case reflect.Bool:
		tm := v.(*Term)
		if !tm.isC {
			panic(notConcrete{})
		}
		return reflect.ValueOf(tm.cval == 1)
	case reflect.Slice:
		s := v.(Slice)
		out := reflect.MakeSlice(t, s.len, s.len)
		for k := 0; k < s.len; k++ {
			out.Index(k).Set(toNative(s.back.e[s.off+k], t.Elem()))
		}
		return out
	}
	panic(engineErr{"toNative: " + t.String()})
}

func fromNative(r reflect.Value) Value {
	switch r.Kind() {
	case reflect.String:
		return strConst(r.String())
	case reflect.Int, reflect.Int64:
		return BV(uint64(r.Int()), 64)
	case reflect.Int32:
		return BV(uint64(r.Int()), 32)
	case reflect.Bool:
		return Bool(r.Bool())
	case reflect.Slice:
		a := &Arr{e: make([]Value, r.Len())}
		for k := range a.e {
			a.e[k] = fromNative(r.Index(k))
		}
		return Slice{back: a, len: r.Len(), cap: r.Len()}
	}
	panic(engineErr{"fromNative: " + r.Type().String()})
}

// nativeFn wraps a Go function as an intrinsic usable when all args are concrete.
func nativeFn(name string, fn interface{}, fallback func(c *Ctx, a []Value) Value) func(c *Ctx, a []Value) Value {
	fv := reflect.ValueOf(fn)
	ft := fv.Type()
	return func(c *Ctx, a []Value) (res Value) {
		callee := c.curCallee
		defer func() {
			if r := recover(); r != nil {
				if _, ok := r.(notConcrete); ok {
					if fallback == nil {
						// interpret the real body instead
						c.bypass = true
						res = c.call(callee, a)
						return
					}
					res = fallback(c, a)
					return
				}
				panic(r)
			}
		}()
		in := make([]reflect.Value, len(a))
		for k := range a {
			in[k] = toNative(a[k], ft.In(k))
		}
		var out []reflect.Value
		if ft.IsVariadic() {
			out = fv.CallSlice(in)
		} else {
			out = fv.Call(in)
		}
		if len(out) == 0 {
			return nil
		}
		if len(out) == 1 {
			return fromNative(out[0])
		}
		t := make(Tuple, len(out))
		for k := range out {
			t[k] = fromNative(out[k])
		}
		return t
	}
}

func installNative(c *Ctx) {
	reg := func(name string, fn interface{}) { c.intrinsics[name] = nativeFn(name, fn, nil) }
	reg("strings.Contains", strings.Contains)
	reg("strings.ContainsAny", strings.ContainsAny)
	reg("strings.HasPrefix", strings.HasPrefix)
	reg("strings.HasSuffix", strings.HasSuffix)
	reg("strings.TrimPrefix", strings.TrimPrefix)
	reg("strings.TrimSuffix", strings.TrimSuffix)
	reg("strings.TrimSpace", strings.TrimSpace)
	reg("strings.Repeat", strings.Repeat)
	reg("strings.ReplaceAll", strings.ReplaceAll)
	reg("strings.ToLower", strings.ToLower)
	reg("strings.ToUpper", strings.ToUpper)
	reg("strings.Index", strings.Index)
	reg("path.Join", path.Join)
	reg("path.Split", path.Split)
	reg("path.Base", path.Base)
	reg("path.Dir", path.Dir)
	reg("github.com/iancoleman/strcase.ToSnake", strcase.ToSnake)
	reg("github.com/iancoleman/strcase.ToCamel", strcase.ToCamel)
	reg("github.com/iancoleman/strcase.ToLowerCamel", strcase.ToLowerCamel)
	reg("github.com/iancoleman/strcase.ToScreamingSnake", strcase.ToScreamingSnake)
	_ = fmt.Sprint
}
